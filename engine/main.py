"""./vcheck dispatcher."""
import importlib
import json
import sys


def main():
    if len(sys.argv) < 2:
        print("usage: vcheck <ID> [--tier quick|thorough] | vcheck replay <path>")
        return 2
    if sys.argv[1] == "replay":
        with open(sys.argv[2]) as f:
            rec = json.load(f)
        mod = importlib.import_module("checks." + rec["property"].lower())
        print(f"replaying {rec['property']} {rec.get('kind')}: {rec.get('text')}")
        ok = mod.replay(rec["data"])
        print("REPRODUCED" if ok else "not reproduced")
        return 1 if ok else 0
    if sys.argv[1] == "selftest":
        from engine import selftest
        return selftest.main()
    prop = sys.argv[1].upper()
    try:
        mod = importlib.import_module("checks." + prop.lower())
        return mod.main(sys.argv[2:])
    except Exception:      # the harness itself failed (e.g. a function it binds to was moved): never a pass, never a VIOLATION
        import traceback
        print("HARNESS-ERROR: " + traceback.format_exc()[-1200:])
        return 2


if __name__ == "__main__":
    sys.exit(main())
