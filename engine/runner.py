"""Sharding, merging, known findings, replay files and evidence for every check."""
import hashlib
import inspect
import json
import multiprocessing
import os
import sys
import time
import traceback

VERIF = os.path.dirname(os.path.dirname(os.path.abspath(__file__)))
# seed trials (tools/seedtest.sh) redirect their scratch evidence/replays; registered commands always write under /verif
EVIDENCE_DIR = os.environ.get("VERIF_EVIDENCE_DIR") or os.path.join(VERIF, "evidence")
REPLAY_DIR = (os.environ.get("VERIF_EVIDENCE_DIR") and os.path.join(os.environ["VERIF_EVIDENCE_DIR"], "replays")) or os.path.join(VERIF, "replays")
KNOWN_FILE = os.path.join(VERIF, "known_findings.json")

EXIT_OK, EXIT_VIOLATION, EXIT_HARNESS = 0, 1, 2


def tier_and_seed(argv=None):
    argv = sys.argv[1:] if argv is None else argv
    tier = os.environ.get("VERIF_TIER", "quick")
    if "--tier" in argv:
        tier = argv[argv.index("--tier") + 1]
    if tier not in ("quick", "thorough"):
        tier = "quick"
    try:
        seed = int(os.environ.get("VERIF_SEED", "0"))
    except ValueError:
        seed = 0
    return tier, seed


def source_digest(*objs):
    """Qualified names + hash of the current source of the functions a check encodes."""
    out = []
    for o in objs:
        try:
            src = inspect.getsource(o)
        except (OSError, TypeError):
            src = repr(o)
        name = getattr(o, "__module__", "?") + "." + getattr(o, "__qualname__", repr(o))
        out.append(f"{name}@{hashlib.sha1(src.encode()).hexdigest()[:10]}")
    return out


def safe_digest(thunk):
    """A refactoring that moves or renames a private function must not crash the harness: the list is evidence, not an obligation."""
    try:
        return thunk()
    except AttributeError as e:
        return [f"(function list unavailable on this tree: {e})"]


def load_known():
    try:
        with open(KNOWN_FILE) as f:
            return json.load(f)
    except FileNotFoundError:
        return []


def _matches(entry, prop, violation):
    if entry.get("property") != prop or entry.get("status") != "known":
        return False
    sig = violation.get("signature", {})
    m = entry.get("match", {})
    if not m:
        return False
    return all(json.dumps(sig.get(k), sort_keys=True) == json.dumps(v, sort_keys=True) for k, v in m.items())


def _jsonable(x):
    from fractions import Fraction
    if isinstance(x, dict):
        return {str(k): _jsonable(v) for k, v in x.items()}
    if isinstance(x, (list, tuple, set, frozenset)):
        return [_jsonable(v) for v in x]
    if isinstance(x, Fraction):
        return x.numerator if x.denominator == 1 else f"{x.numerator}/{x.denominator}"
    if isinstance(x, (str, int, float, bool)) or x is None:
        return x
    return str(x)


_WORKER = None


def _call(item):
    t0 = time.time()
    try:
        res = _WORKER(item)
    except Exception:  # harness error inside the worker: never a pass
        res = {"status": "error", "error": traceback.format_exc()[-1500:]}
    except BaseException as e:  # Inconclusive and friends escaping a worker
        res = {"status": "inconclusive", "reason": f"{type(e).__name__}: {e}"}
    res.setdefault("status", "ok")
    res["wall_s"] = round(time.time() - t0, 3)
    res.setdefault("item", _jsonable(item))
    if isinstance(item, dict) and "section" in item:
        res.setdefault("section", item["section"])
    return res


def run_sharded(worker, items, wall_budget_s, procs=None):
    """Run worker(item) for each item on a fork pool; stop handing out work after the budget."""
    global _WORKER
    _WORKER = worker
    results = _run_sharded(worker, items, wall_budget_s, procs)
    ALL_RESULTS.extend(results[0])
    return results


ALL_RESULTS = []


def _run_sharded(worker, items, wall_budget_s, procs=None):
    procs = procs or min(os.cpu_count() or 1, 16)
    t0 = time.time()
    results, skipped = [], 0
    if procs == 1 or len(items) <= 1:
        for it in items:
            if time.time() - t0 > wall_budget_s:
                skipped += 1
                continue
            results.append(_call(it))
        return results, skipped
    ctx = multiprocessing.get_context("fork")
    with ctx.Pool(processes=procs, maxtasksperchild=200) as pool:
        pending = []
        it_iter = iter(items)
        exhausted = False
        while True:
            while not exhausted and len(pending) < procs * 2:
                if time.time() - t0 > wall_budget_s:
                    skipped += sum(1 for _ in it_iter)
                    exhausted = True
                    break
                try:
                    it = next(it_iter)
                except StopIteration:
                    exhausted = True
                    break
                pending.append(pool.apply_async(_call, (it,)))
            if not pending:
                break
            still = []
            progressed = False
            for p in pending:
                if p.ready():
                    results.append(p.get())
                    progressed = True
                else:
                    still.append(p)
            pending = still
            if not progressed:
                time.sleep(0.01)
    return results, skipped


class Report:
    """Collects results of a check run and writes evidence / verdict."""

    def __init__(self, prop, tier, seed, level="other"):
        self.prop, self.tier, self.seed, self.level = prop, tier, seed, level
        self.t0 = time.time()
        self.sections = []
        self.violations = []
        self.errors = []
        self.inconclusive = []
        self.samples = []
        self.counts = dict(evaluations=0, decided=0, nontrivial=0, paths=0, obligations=0,
                           discharged=0, solver_queries=0, solver_s=0.0, skipped=0)
        self.functions = []
        self.bounds = {}
        self.assumptions = []
        self.stubs = []
        self.outside = []
        self.extra = {}
        self.exhaustive = None

    def add_results(self, section, results, skipped=0, exhaustive=None):
        sec = dict(section=section, inputs=len(results), skipped=skipped, decided=0, inconclusive=0,
                   errors=0, paths=0, obligations=0, discharged=0, solver_queries=0, solver_s=0.0,
                   violations=0, wall_cpu_s=0.0)
        for r in results:
            self.counts["evaluations"] += 1
            st = r.get("status", "ok")
            for k in ("paths", "obligations", "discharged", "solver_queries"):
                sec[k] += int(r.get(k, 0))
                self.counts[k] += int(r.get(k, 0))
            sec["solver_s"] += float(r.get("solver_s", 0.0))
            self.counts["solver_s"] += float(r.get("solver_s", 0.0))
            sec["wall_cpu_s"] += float(r.get("wall_s", 0.0))
            if st == "error":
                sec["errors"] += 1
                self.errors.append({"section": section, "item": r.get("item"), "error": r.get("error")})
            elif st == "inconclusive":
                sec["inconclusive"] += 1
                self.inconclusive.append({"section": section, "item": r.get("item"), "reason": r.get("reason")})
            else:
                sec["decided"] += 1
                self.counts["decided"] += 1
                if r.get("nontrivial"):
                    self.counts["nontrivial"] += 1
            for v in r.get("violations", []):
                v = dict(v)
                v.setdefault("section", section)
                self.violations.append(v)
                sec["violations"] += 1
            if r.get("sample") is not None and len(self.samples) < 6:
                self.samples.append(_jsonable(r["sample"]))
        sec["solver_s"] = round(sec["solver_s"], 2)
        sec["wall_cpu_s"] = round(sec["wall_cpu_s"], 2)
        if exhaustive is not None:
            sec["exhaustive"] = bool(exhaustive and not skipped and not sec["inconclusive"])
        self.counts["skipped"] += skipped
        self.sections.append(sec)

    def finish(self, explanation, rule):
        known = load_known()
        os.makedirs(EVIDENCE_DIR, exist_ok=True)
        printed_known = {}
        new_violations = []
        unconfirmed = []
        for v in self.violations:
            if not v.get("confirmed", False):
                unconfirmed.append(v)
                continue
            hit = next((e for e in known if _matches(e, self.prop, v)), None)
            if hit is not None:
                printed_known.setdefault(hit["id"], hit)
            else:
                new_violations.append(v)
        for fid, e in printed_known.items():
            print(f"KNOWN-FINDING: property={self.prop} {fid}: {e['text']}")
        replay_paths = []
        seen = set()
        for v in new_violations:
            key = json.dumps(_jsonable(v.get("signature", v.get("data"))), sort_keys=True)
            if key in seen:
                continue
            seen.add(key)
            if len(replay_paths) >= 10:
                continue
            os.makedirs(REPLAY_DIR, exist_ok=True)
            h = hashlib.sha1(key.encode()).hexdigest()[:12]
            path = os.path.join(REPLAY_DIR, f"{self.prop}-{h}.json")
            with open(path, "w") as f:
                json.dump(_jsonable({"property": self.prop, "kind": v.get("kind"), "text": v.get("text"),
                                     "signature": v.get("signature"), "data": v.get("data")}), f, indent=1)
            replay_paths.append(path)
            print(f"VIOLATION property={self.prop} replay={path}")
            print(f"  {v.get('kind')}: {v.get('text')}")
        c = self.counts
        wall = time.time() - self.t0
        cov = {
            "explanation": explanation,
            "evaluations": c["evaluations"],
            "distinct_nontrivial": c["nontrivial"],
            "rule": rule,
            "samples": self.samples or ["(no sample recorded)"],
            "obligations": c["obligations"],
            "discharged": c["discharged"],
            "inputs_fully_decided": c["decided"],
            "inputs_inconclusive": len(self.inconclusive),
            "inputs_not_reached_within_budget": c["skipped"],
            "harness_errors": len(self.errors),
            "paths": c["paths"],
            "solver_queries": c["solver_queries"],
            "solver_s": round(c["solver_s"], 2),
            "functions_encoded": self.functions,
            "bounds": self.bounds,
            "stubs_and_builtin_models": self.stubs,
            "outside_the_claim": self.outside,
            "sections": self.sections,
            "inconclusive_detail": self.inconclusive[:10],
            "error_detail": self.errors[:5],
            "known_findings_matched": sorted(printed_known),
            "violations_new": len(seen),
            "violations_unconfirmed_by_replay": len(unconfirmed),
            "replays": replay_paths,
            "cpu_count": os.cpu_count(),
        }
        if self.exhaustive is not None:
            cov["exhaustive"] = bool(self.exhaustive and not c["skipped"] and not self.inconclusive)
        cov.update(self.extra)
        ev = {
            "property_id": self.prop,
            "tier": self.tier,
            "seed": self.seed,
            "level": self.level,
            "coverage": cov,
            "assumptions": self.assumptions,
            "wall_s": round(wall, 2),
            "violations": len(seen),
        }
        with open(os.path.join(EVIDENCE_DIR, f"{self.prop}.json"), "w") as f:
            json.dump(_jsonable(ev), f, indent=1)
        print(f"[{self.prop}] tier={self.tier} inputs={c['evaluations']} decided={c['decided']} "
              f"inconclusive={len(self.inconclusive)} skipped={c['skipped']} paths={c['paths']} "
              f"obligations={c['obligations']} discharged={c['discharged']} queries={c['solver_queries']} "
              f"solver_s={c['solver_s']:.1f} wall_s={wall:.1f} violations={len(seen)} known={len(printed_known)}")
        if seen:
            return EXIT_VIOLATION
        if unconfirmed:
            print(f"HARNESS-ERROR: {len(unconfirmed)} solver counterexample(s) did not reproduce concretely; "
                  f"first: {unconfirmed[0].get('kind')} {json.dumps(_jsonable(unconfirmed[0].get('data')))[:600]}")
            return EXIT_HARNESS
        lost = [r for r in ALL_RESULTS if r.get("status") in ("error", "inconclusive")]
        if len(lost) > len(self.errors) + len(self.inconclusive):
            # a failed evaluation that no section accounted for is never a pass
            print(f"HARNESS-ERROR: {len(lost) - len(self.errors) - len(self.inconclusive)} failed evaluation(s) were not attributed to any section; first: "
                  f"{str(lost[0].get('error') or lost[0].get('reason'))[-800:]}")
            return EXIT_HARNESS
        if self.errors:
            print(f"HARNESS-ERROR: {len(self.errors)} worker error(s); first:\n{self.errors[0]['error']}")
            return EXIT_HARNESS
        if c["decided"] == 0:
            print("HARNESS-ERROR: nothing was fully decided (all inconclusive)")
            return EXIT_HARNESS
        dead = [sec["section"] for sec in self.sections if sec["inconclusive"] > 0 and sec["decided"] == 0]
        if dead:
            # a whole section that the encoding can no longer follow is never a pass (e.g. the code started hashing symbolic values)
            print(f"HARNESS-ERROR: every input of section(s) {dead} was inconclusive; first reason: {self.inconclusive[0].get('reason')}")
            return EXIT_HARNESS
        if c["obligations"] == 0:
            print("HARNESS-ERROR: no obligation was generated (vacuous run)")
            return EXIT_HARNESS
        return EXIT_OK
