"""Engine B ("py2smt"): translate a loop-bounded integer Python function, from its current source,
into z3 bit-vector terms with ITE merging of branches.

Subset: positional int/bool parameters; Assign, AugAssign, If/elif/else, For over range(expr), While (unrolled),
Return, docstrings; + - * & | ^ ~ >> << unary minus, not and or, conditional expressions, comparisons, x.bit_length(),
x.bit_count(), abs/min/max/int/bool, len(param), names, constants.
Anything else raises Unsupported (the function is then reported as not encodable).
Python ints are unbounded; the encoding uses `width` bits (two's complement).  Every +, -, *, <<, unary minus records the condition
under which its result would not fit (`Translator.overflow`); the caller must show that condition unsatisfiable (else: inconclusive).
"""
import ast
import inspect
import operator
import textwrap

import z3


class Unsupported(Exception):
    pass


class Translator:
    def __init__(self, fn, width, unroll):
        self.src = textwrap.dedent(inspect.getsource(fn))
        self.fdef = ast.parse(self.src).body[0]
        if not isinstance(self.fdef, ast.FunctionDef):
            raise Unsupported("not a function definition")
        self.W = width
        self.unroll = unroll
        self.params = [a.arg for a in self.fdef.args.args]
        self.overflow = []      # z3 Bool terms: "this intermediate result does not fit in `width` bits"

    # -- value helpers
    def as_bool(self, v):
        if isinstance(v, bool):
            return z3.BoolVal(v)
        if isinstance(v, int):
            return z3.BoolVal(v != 0)
        if z3.is_bool(v):
            return v
        return v != z3.BitVecVal(0, self.W)

    def as_bv(self, v):
        if isinstance(v, bool):
            return z3.BitVecVal(int(v), self.W)
        if isinstance(v, int):
            return z3.BitVecVal(v, self.W)
        if z3.is_bool(v):
            return z3.If(v, z3.BitVecVal(1, self.W), z3.BitVecVal(0, self.W))
        return v

    def bit_length(self, x):
        x = self.as_bv(x)
        x = z3.If(x < 0, -x, x)      # int.bit_length() is that of the absolute value
        r = z3.BitVecVal(0, self.W)
        for i in range(self.W):
            r = z3.If(z3.Extract(i, i, x) == 1, z3.BitVecVal(i + 1, self.W), r)
        return r

    def bit_count(self, x):
        """int.bit_count(): number of ones in the binary representation of abs(x)."""
        x = self.as_bv(x)
        x = z3.If(x < 0, -x, x)
        return z3.Sum([z3.ZeroExt(self.W - 1, z3.Extract(i, i, x)) for i in range(self.W)])

    # -- execution
    def run(self, args, lens=None):
        """args: dict param -> z3 term / python int / bool.  Returns state with ret/val/unwind."""
        st = {"env": dict(args), "lens": dict(lens or {}), "ret": z3.BoolVal(False),
              "val": z3.BitVecVal(0, self.W), "unwind_exceeded": z3.BoolVal(False)}
        self.block(self.fdef.body, st, z3.BoolVal(True))
        return st

    def merge(self, guard, a, b):
        out = {}
        for k in set(a) | set(b):
            va, vb = a.get(k), b.get(k)
            if va is None or vb is None:
                out[k] = va if va is not None else vb
                continue
            if va is vb:
                out[k] = va
                continue
            both_bool = (z3.is_bool(va) or isinstance(va, bool)) and (z3.is_bool(vb) or isinstance(vb, bool))
            if both_bool:
                out[k] = z3.If(guard, self.as_bool(va), self.as_bool(vb))
            else:
                out[k] = z3.If(guard, self.as_bv(va), self.as_bv(vb))
        return out

    def block(self, stmts, st, live):
        for s in stmts:
            self.stmt(s, st, z3.And(live, z3.Not(st["ret"])))

    def stmt(self, s, st, live):
        env = st["env"]
        if isinstance(s, ast.Expr):
            if isinstance(s.value, ast.Constant):
                return
            raise Unsupported(ast.dump(s))
        if isinstance(s, ast.Assign):
            if len(s.targets) != 1 or not isinstance(s.targets[0], ast.Name):
                raise Unsupported(ast.dump(s))
            new = self.expr(s.value, st)
            self._assign(st, s.targets[0].id, new, live)
        elif isinstance(s, ast.AugAssign):
            if not isinstance(s.target, ast.Name):
                raise Unsupported(ast.dump(s))
            new = self.binop(s.op, env[s.target.id], self.expr(s.value, st))
            self._assign(st, s.target.id, new, live)
        elif isinstance(s, ast.Return):
            v = self.expr(s.value, st)
            st["val"] = z3.If(live, self.as_bv(v), st["val"])
            st["ret"] = z3.Or(st["ret"], live)
        elif isinstance(s, ast.If):
            c = self.as_bool(self.expr(s.test, st))
            env0 = dict(env)
            st["env"] = dict(env0)
            self.block(s.body, st, z3.And(live, c))
            a = st["env"]
            st["env"] = dict(env0)
            self.block(s.orelse, st, z3.And(live, z3.Not(c)))
            b = st["env"]
            st["env"] = self.merge(c, a, b)
        elif isinstance(s, ast.For):
            it = s.iter
            if not (isinstance(it, ast.Call) and isinstance(it.func, ast.Name) and it.func.id == "range" and len(it.args) == 1):
                raise Unsupported("for loop not over range(expr)")
            if s.orelse:
                raise Unsupported("for/else")
            n = self.expr(it.args[0], st)
            tgt = s.target.id if isinstance(s.target, ast.Name) else None
            if isinstance(n, int) and not isinstance(n, bool):
                for i in range(n):
                    if tgt and tgt != "_":
                        st["env"][tgt] = i
                    self.block(s.body, st, live)
            else:
                nb = self.as_bv(n)
                for i in range(self.unroll):
                    g = z3.And(live, nb > z3.BitVecVal(i, self.W))
                    env0 = dict(st["env"])
                    if tgt and tgt != "_":
                        st["env"][tgt] = i
                    self.block(s.body, st, g)
                    st["env"] = self.merge(g, st["env"], env0)
                st["unwind_exceeded"] = z3.Or(st["unwind_exceeded"], z3.And(live, nb > z3.BitVecVal(self.unroll, self.W)))
        elif isinstance(s, ast.While):
            if s.orelse:
                raise Unsupported("while/else")
            g_live = live
            for _i in range(self.unroll):
                c = self.as_bool(self.expr(s.test, st))
                g = z3.And(g_live, c, z3.Not(st["ret"]))
                env0 = dict(st["env"])
                self.block(s.body, st, g)
                st["env"] = self.merge(g, st["env"], env0)
                g_live = g
            c = self.as_bool(self.expr(s.test, st))
            st["unwind_exceeded"] = z3.Or(st["unwind_exceeded"], z3.And(g_live, c, z3.Not(st["ret"])))
        elif isinstance(s, ast.Pass):
            return
        else:
            raise Unsupported(ast.dump(s)[:80])

    def _assign(self, st, name, new, live):
        # statements after a guarded `return` must not take effect on the returned paths; the value
        # is irrelevant there (the result is already fixed), so a plain overwrite is sound.
        st["env"][name] = new

    def binop(self, op, a, b):
        pyops = {ast.Add: operator.add, ast.Sub: operator.sub, ast.BitAnd: operator.and_, ast.BitOr: operator.or_,
                 ast.RShift: operator.rshift, ast.LShift: operator.lshift, ast.BitXor: operator.xor, ast.Mult: operator.mul}
        if type(op) not in pyops:
            raise Unsupported(type(op).__name__)
        if isinstance(a, int) and isinstance(b, int):
            return pyops[type(op)](int(a), int(b))
        a, b = self.as_bv(a), self.as_bv(b)
        if isinstance(op, ast.RShift):
            return a >> b    # arithmetic shift = Python semantics for negative ints too
        r = pyops[type(op)](a, b)
        if isinstance(op, ast.Add):
            self.overflow.append(z3.Not(z3.And(z3.BVAddNoOverflow(a, b, True), z3.BVAddNoUnderflow(a, b))))
        elif isinstance(op, ast.Sub):
            self.overflow.append(z3.Not(z3.And(z3.BVSubNoOverflow(a, b), z3.BVSubNoUnderflow(a, b, True))))
        elif isinstance(op, ast.Mult):
            self.overflow.append(z3.Not(z3.And(z3.BVMulNoOverflow(a, b, True), z3.BVMulNoUnderflow(a, b))))
        elif isinstance(op, ast.LShift):
            self.overflow.append(z3.Or(b < 0, z3.UGE(b, z3.BitVecVal(self.W, self.W)), (r >> b) != a))
        return r

    def expr(self, e, st):
        env = st["env"]
        if isinstance(e, ast.Constant):
            if isinstance(e.value, (int, bool)):
                return e.value
            raise Unsupported(f"constant {e.value!r}")
        if isinstance(e, ast.Name):
            if e.id not in env:
                raise Unsupported(f"unknown name {e.id}")
            return env[e.id]
        if isinstance(e, ast.BinOp):
            return self.binop(e.op, self.expr(e.left, st), self.expr(e.right, st))
        if isinstance(e, ast.UnaryOp):
            v = self.expr(e.operand, st)
            if isinstance(e.op, ast.Not):
                return (not v) if isinstance(v, (int, bool)) else z3.Not(self.as_bool(v))
            if isinstance(e.op, ast.USub):
                if isinstance(v, int):
                    return -v
                v = self.as_bv(v)
                self.overflow.append(z3.Not(z3.BVSNegNoOverflow(v)))
                return -v
            if isinstance(e.op, ast.Invert):
                return ~int(v) if isinstance(v, int) else ~self.as_bv(v)     # ~x = -x - 1 in two's complement, as in Python
            if isinstance(e.op, ast.UAdd):
                return v
            raise Unsupported(type(e.op).__name__)
        if isinstance(e, ast.IfExp):
            c = self.expr(e.test, st)
            a, b = self.expr(e.body, st), self.expr(e.orelse, st)
            if isinstance(c, (int, bool)):
                return a if c else b
            if (z3.is_bool(a) or isinstance(a, bool)) and (z3.is_bool(b) or isinstance(b, bool)):
                return z3.If(self.as_bool(c), self.as_bool(a), self.as_bool(b))
            return z3.If(self.as_bool(c), self.as_bv(a), self.as_bv(b))
        if isinstance(e, ast.BoolOp):
            vs = [self.as_bool(self.expr(v, st)) for v in e.values]
            return z3.And(*vs) if isinstance(e.op, ast.And) else z3.Or(*vs)
        if isinstance(e, ast.Compare):
            if len(e.ops) != 1:
                raise Unsupported("chained comparison")
            a, b = self.expr(e.left, st), self.expr(e.comparators[0], st)
            if (z3.is_bool(a) or isinstance(a, bool)) and (z3.is_bool(b) or isinstance(b, bool)) and isinstance(e.ops[0], (ast.Eq, ast.NotEq)):
                r = self.as_bool(a) == self.as_bool(b)
                return r if isinstance(e.ops[0], ast.Eq) else z3.Not(r)
            a, b = self.as_bv(a), self.as_bv(b)
            ops = {ast.Lt: operator.lt, ast.Gt: operator.gt, ast.LtE: operator.le, ast.GtE: operator.ge,
                   ast.Eq: operator.eq, ast.NotEq: operator.ne}
            if type(e.ops[0]) not in ops:
                raise Unsupported(type(e.ops[0]).__name__)
            return ops[type(e.ops[0])](a, b)   # signed comparisons
        if isinstance(e, ast.Call):
            if isinstance(e.func, ast.Attribute) and e.func.attr == "bit_length" and not e.args:
                v = self.expr(e.func.value, st)
                return int(v).bit_length() if isinstance(v, int) else self.bit_length(v)
            if isinstance(e.func, ast.Attribute) and e.func.attr == "bit_count" and not e.args:
                v = self.expr(e.func.value, st)
                return int(v).bit_count() if isinstance(v, int) else self.bit_count(v)
            if isinstance(e.func, ast.Name) and e.func.id in ("abs", "int", "bool", "min", "max") and e.args and not e.keywords:
                vs = [self.expr(a, st) for a in e.args]
                if e.func.id == "int" and len(vs) == 1:
                    return vs[0] if isinstance(vs[0], int) and not isinstance(vs[0], bool) else self.as_bv(vs[0])
                if e.func.id == "bool" and len(vs) == 1:
                    return bool(vs[0]) if isinstance(vs[0], (int, bool)) else self.as_bool(vs[0])
                if e.func.id == "abs" and len(vs) == 1:
                    if isinstance(vs[0], int):
                        return abs(vs[0])
                    v = self.as_bv(vs[0])
                    self.overflow.append(z3.Not(z3.BVSNegNoOverflow(v)))
                    return z3.If(v < 0, -v, v)
                if e.func.id in ("min", "max") and len(vs) >= 2:
                    r = self.as_bv(vs[0])
                    for b in vs[1:]:
                        b = self.as_bv(b)
                        r = z3.If(b < r, b, r) if e.func.id == "min" else z3.If(b > r, b, r)   # left-biased like the builtins
                    return r
            if isinstance(e.func, ast.Name) and e.func.id == "len" and len(e.args) == 1 and isinstance(e.args[0], ast.Name):
                if e.args[0].id in st["lens"]:
                    return st["lens"][e.args[0].id]
            raise Unsupported("call " + ast.dump(e.func)[:60])
        raise Unsupported(ast.dump(e)[:80])


def eval_concrete(fn, width, unroll, args, lens=None):
    """Evaluate the encoding on concrete arguments (translator validation). Returns python int."""
    tr = Translator(fn, width, unroll)
    st = tr.run(args, lens)
    if not z3.is_true(z3.simplify(st["ret"])):
        raise Unsupported("encoding does not return on concrete input")
    if z3.is_true(z3.simplify(st["unwind_exceeded"])):
        raise Unsupported("unwinding bound exceeded on concrete input")
    return z3.simplify(st["val"]).as_signed_long()
