"""Self-test of the trusted base: Lin arithmetic vs. fractions, explorer partition property, oracle validation on the
repository's own test fixtures.  ./vcheck selftest   (exit 0 ok / 2 failure)."""
import itertools
import random
import sys
from fractions import Fraction

import z3

from engine.forksym import Ctx, Lin, Term, ite_min


def test_lin_arithmetic(rng):
    ctx = Ctx([("a", "Real", None), ("b", "Real", "pos"), ("c", "Real", "nonneg")])
    vars_ = [ctx.var(n) for n in "abc"]
    for _ in range(400):
        vals = {"a": Fraction(rng.randint(-9, 9), rng.randint(1, 5)), "b": Fraction(rng.randint(1, 9), rng.randint(1, 5)),
                "c": Fraction(rng.randint(0, 9), rng.randint(1, 5))}

        def rand_expr(depth):
            if depth == 0 or rng.random() < 0.3:
                if rng.random() < 0.3:
                    k = rng.choice([0, 1, -2, Fraction(3, 4), 2.5])
                    return k, Fraction(k)
                i = rng.randrange(3)
                return vars_[i], vals["abc"[i]]
            op = rng.choice(["+", "-", "*k", "/k", "neg"])
            x, xv = rand_expr(depth - 1)
            if op == "neg":
                return -x, -xv
            if op == "*k":
                k = rng.choice([2, -3, Fraction(1, 3), 0.5, 0])
                return (x * k if rng.random() < 0.5 else k * x), xv * Fraction(k)
            if op == "/k":
                k = rng.choice([2, -4, Fraction(2, 3)])
                return x / k, xv / Fraction(k)
            y, yv = rand_expr(depth - 1)
            return (x + y, xv + yv) if op == "+" else (x - y, xv - yv)

        e, ev = rand_expr(4)
        if isinstance(e, Lin):
            got = e.k + sum(c * vals["abc"[i]] for i, c in e.d.items())
            assert got == ev, (e, got, ev)
            # z3 agrees with the evaluation
            s = z3.Solver()
            for n, z in zip("abc", ctx.zv):
                s.add(z == z3.RealVal(str(vals[n])))
            s.add(ctx.z(e) != z3.RealVal(str(ev)))
            assert str(s.check()) == "unsat"


def test_explorer_partition(rng):
    """The explored paths partition the input space: every concrete valuation satisfies exactly one path condition,
    and the concrete run agrees with the symbolic result on that path."""
    def prog(x, y, z):
        r = 0
        if x < y:
            r += 1
        if min(x, y, z) == z:
            r += 10
        if max(x + y, 2 * z) > 5:
            r += 100
        if x == y:
            r += 1000
        return r

    ctx = Ctx([("x", "Int", None), ("y", "Int", "nonneg"), ("z", "Int", None)])
    x, y, z = (ctx.var(n) for n in "xyz")
    paths = []
    for _ in ctx.paths():
        r = prog(x, y, z)
        paths.append((list(ctx.lits), r))
    assert len(paths) >= 8
    for _ in range(300):
        v = {"x": rng.randint(-6, 6), "y": rng.randint(0, 6), "z": rng.randint(-6, 6)}
        hits = []
        for lits, r in paths:
            s = z3.Solver()
            for n, zv in zip("xyz", ctx.zv):
                s.add(zv == v[n])
            for cond, val in lits:
                s.add(cond if val else z3.Not(cond))
            if str(s.check()) == "sat":
                hits.append(r)
        assert len(hits) == 1, (v, hits)
        assert hits[0] == prog(v["x"], v["y"], v["z"]), (v, hits)


def test_term_min():
    ctx = Ctx([])
    zs = [z3.Int(f"t{i}") for i in range(4)]
    ts = [Term(ctx, zz) for zz in zs]
    for _ in ctx.paths():
        m = ite_min(*ts)
        assert ctx.prove_raw(z3.And(*[m.z <= zz for zz in zs], z3.Or(*[m.z == zz for zz in zs])), zs) is None
        assert ctx.prove_raw(m.z < zs[0], zs) is not None      # witness: not vacuous
    # forking builtin min gives the same result on every path
    n = 0
    ctx2 = Ctx([])
    for _ in ctx2.paths():
        ts2 = [Term(ctx2, zz) for zz in zs]
        m = min(ts2)
        assert ctx2.prove_raw(z3.And(*[m.z <= zz for zz in zs]), zs) is None
        n += 1
    assert n >= 4


def test_oracles_on_repo_fixtures():
    """The oracles reproduce the expected values of the repository's own tests (tests/model/test_reconciliation.py,
    tests/compute/test_exhaustive.py, tests/compute/test_reconciliation.py)."""
    from engine.oracles.trees import OTree
    from engine.oracles import recon as RC, labels as LB
    S = OTree(("X", ("Y", "Z")), "S")
    O = OTree((("x_1", "x_2"), ("y_1", "z_1")), "O")
    lm = {"x_1": "X", "x_2": "X", "y_1": "Y", "z_1": "Z"}
    assert len(list(RC.enumerate_recs(O, S, lm))) == 16          # test_generate_all
    O2 = OTree((("x_1", ("x_2", ("y_1", "z_1"))), ("y_2", "z_2")), "O")
    lm2 = {"x_1": "X", "x_2": "X", "y_1": "Y", "z_1": "Z", "y_2": "Y", "z_2": "Z"}
    recs = list(RC.enumerate_recs(O2, S, lm2))
    assert len(recs) == 199                                       # test_output_count
    dl = [r for r in recs if r[1][2] == 0]
    best = min(r[1][1] + r[1][3] for r in dl)                     # dup = floss = 1, no transfers
    assert best == 4                                              # test_reconcile_lca: cost 4
    assert min(r[1][1] + r[1][2] + r[1][3] for r in recs) == 2    # test_reconcile_thl: cost 2, two optimal solutions
    assert sum(1 for r in recs if r[1][1] + r[1][2] + r[1][3] == 2) == 2
    lca = RC.lca_mapping(O2, S, lm2)
    assert RC.evaluate(O2, S, lca)[0][1] + RC.evaluate(O2, S, lca)[0][3] == 4
    # segment runs: tests/utils/test_subsequences.py::test_subseq_segment_dist
    par = list("abcdef")
    def sub(mask):
        return [g for i, g in enumerate(par) if mask >> i & 1]
    from superrec2.utils.subsequences import subseq_segment_dist
    for child, parent in itertools.product(range(1, 64), repeat=2):
        if child & ~parent:
            continue
        for edges in (True, False):
            assert LB.runs(sub(child), sub(parent), edges) == subseq_segment_dist(child, parent, edges), (child, parent, edges)


def test_oracles_against_package_evaluator(rng):
    """600 random labelled reconciliations: oracle events/costs equal the package's node_event / cost (both directions of trust:
    C06 is then expected to hold and a discrepancy found by C01-C05 is attributable to the optimisers)."""
    from engine import harness as H
    from engine.oracles import labels as LB
    from checks import dp_common as D, sr_common as SR, c06
    n = 0
    while n < 60:
        d = SR.random_super_input(rng, rng.randint(3, 5), rng.randint(2, 4), rng.randint(2, 4), False)
        case = H.Case(d)
        orc = D.Oracle(case)
        labs = [s for s, _ in LB.unordered_labellings(case.O, case.leafsyn)]
        costs = {k: rng.randint(0, 5) for k in H.COST_NAMES}
        for m, cnt, ev, kept in rng.sample(orc.recs, min(10, len(orc.recs))):
            syn = rng.choice(labs)
            fails = c06.concrete_failures(d, {str(k): v for k, v in m.items()}, {str(k): sorted(v) for k, v in syn.items()}, False, costs)
            assert not fails, fails
            n += 1


def main():
    rng = random.Random(12345)
    tests = [("Lin arithmetic vs fractions and z3", lambda: test_lin_arithmetic(rng)),
             ("explorer partitions the input space", lambda: test_explorer_partition(rng)),
             ("Term / ite_min model", test_term_min),
             ("oracles reproduce the repository's test fixtures", test_oracles_on_repo_fixtures),
             ("oracles agree with the package evaluator", lambda: test_oracles_against_package_evaluator(rng))]
    bad = 0
    for name, fn in tests:
        try:
            fn()
            print("ok   ", name)
        except Exception as e:   # noqa
            import traceback
            traceback.print_exc()
            print("FAIL ", name, "::", type(e).__name__, e)
            bad += 1
    return 2 if bad else 0


if __name__ == "__main__":
    sys.exit(main())
