"""Engine A ("forksym"): forking symbolic execution of real Python code on affine scalars.

A `Lin` is an affine form  k + sum(c_i * x_i)  over the variables declared in a `Ctx`
(z3 sort Int or Real, optional declared sign).  The code under test runs natively on `Lin`
objects; every comparison it makes becomes a linear constraint which is decided against the
current path condition (PC) by z3.  When both outcomes are feasible the executor takes one,
asserts it, and pushes PC ∧ ¬c on a work-list; each work item is a PC and the target function
is re-executed from the start under it (no positional replay).  The harness discharges its
obligations while the PC of the path is still asserted on the solver (`Ctx.prove`).
"""
import time
from fractions import Fraction
from math import gcd

import z3


class Inconclusive(BaseException):
    """The exploration could not be completed (unknown, budget, outside the encoding)."""


class OutsideEncoding(Inconclusive):
    """The code under test used an operation the affine encoding cannot express."""


def _zc(x, real):
    if isinstance(x, Fraction):
        if x.denominator == 1:
            x = x.numerator
        else:
            return z3.RealVal(str(x)) if real else None
    return z3.RealVal(x) if real else z3.IntVal(x)


class Ctx:
    """Declared symbols + solver + work-list explorer."""

    def __init__(self, variables, pre=(), max_paths=20000, budget_s=600.0):
        """
        :param variables: list of (name, sort, sign) with sort in {"Int","Real"}, sign in
            {None, "nonneg", "pos"}
        :param pre: callables ctx -> z3 BoolRef (preconditions, asserted before the code runs)
        """
        self.names = [v[0] for v in variables]
        self.sorts = [v[1] for v in variables]
        self.signs = [v[2] for v in variables]
        self.real = any(s == "Real" for s in self.sorts)
        if self.real and not all(s == "Real" for s in self.sorts):
            raise ValueError("mixed sorts are not supported")
        self.idx = {n: i for i, n in enumerate(self.names)}
        mk = z3.Real if self.real else z3.Int
        self.zv = [mk(n) for n in self.names]
        self.n = len(self.names)
        self.solver = z3.Solver()
        for i, s in enumerate(self.signs):
            if s == "nonneg":
                self.solver.add(self.zv[i] >= 0)
            elif s == "pos":
                self.solver.add(self.zv[i] > 0)
        self.pre = [p(self) if callable(p) else p for p in pre]
        for p in self.pre:
            self.solver.add(p)
        self.max_paths = max_paths
        self.budget_s = budget_s
        self.allow_float = False     # float()/round()/format() of a symbol: only where the value is merely PRINTED (drawing coordinates)
        # statistics
        self.nq = 0          # solver check() calls
        self.solver_s = 0.0  # time inside check()
        self.ndec = 0        # decisions asked by the code under test
        self.ntriv = 0       # decided without solver (constants, sign rule)
        self.ncache = 0      # decided from the per-path cache
        self.nmodel = 0      # one side witnessed by the current model
        self.nforks = 0
        self.npaths = 0
        # per-path state
        self.known = {}
        self.lits = []
        self.work = []
        self.model = None
        self._t0 = None
        self._keep = []
        self._mv_model = None
        self._mv_cache = None

    # ------------------------------------------------------------------ symbols
    def var(self, name):
        return Lin(self, {self.idx[name]: 1}, 0)

    def const(self, k):
        return Lin(self, {}, k)

    def z(self, value):
        """z3 expression of a Lin / int / Fraction / float."""
        if isinstance(value, Lin):
            return self._zexpr(value.d, value.k)
        if isinstance(value, bool):
            value = int(value)
        if isinstance(value, float):
            value = Fraction(value)
        r = _zc(value, self.real)
        if r is None:
            raise OutsideEncoding(f"non-integer constant {value} in Int context")
        return r

    def _zexpr(self, d, k):
        """z3 term of the sparse affine form (d: dict index -> coefficient)."""
        real = self.real
        terms = []
        for i in sorted(d):
            ci = d[i]
            if ci == 1:
                terms.append(self.zv[i])
            else:
                zc = _zc(ci, real)
                if zc is None:
                    raise OutsideEncoding("fractional coefficient in Int context")
                terms.append(zc * self.zv[i])
        if k or not terms:
            zk = _zc(k, real)
            if zk is None:
                raise OutsideEncoding("fractional constant in Int context")
            terms.append(zk)
        return terms[0] if len(terms) == 1 else z3.Sum(terms)

    # ------------------------------------------------------------------ solver
    def _check(self, *extra):
        if self._t0 is not None and time.time() - self._t0 > self.budget_s:
            raise Inconclusive("wall budget exhausted")
        t = time.time()
        self.nq += 1
        r = self.solver.check(*extra)
        self.solver_s += time.time() - t
        s = str(r)
        if s == "unknown":
            raise Inconclusive("z3 answered unknown: " + self.solver.reason_unknown())
        return s == "sat"

    @staticmethod
    def _norm(d, k):
        """Scale (d,k) by a positive rational so that all entries are coprime integers."""
        den = 1
        for x in d.values():
            if isinstance(x, Fraction):
                den = den * x.denominator // gcd(den, x.denominator)
        if isinstance(k, Fraction):
            den = den * k.denominator // gcd(den, k.denominator)
        if den != 1:
            d = {i: int(x * den) for i, x in d.items()}
            k = int(k * den)
        else:
            d = {i: int(x) for i, x in d.items()}
            k = int(k)
        g = 0
        for x in d.values():
            g = gcd(g, x)
        g = gcd(g, k)
        if g > 1:
            d = {i: x // g for i, x in d.items()}
            k = k // g
        return d, k

    def _sparse(self, c):
        if isinstance(c, dict):
            return c
        return {i: x for i, x in enumerate(c) if x}

    def trivial(self, c, k, kind):
        """Truth value of (k + c.x) <kind> 0 if it follows from constants / declared signs alone, else None."""
        c = self._sparse(c)
        if not c:
            return (k <= 0) if kind == "le" else (k < 0) if kind == "lt" else (k == 0)
        lo = hi = True       # all signed coefficients >= 0 / <= 0
        lo_strict = hi_strict = False
        signs = self.signs
        for i, ci in c.items():
            s = signs[i]
            if s is None:
                return None
            if ci > 0:
                hi = False
                if s == "pos":
                    lo_strict = True
            else:
                lo = False
                if s == "pos":
                    hi_strict = True
        if lo:  # d >= k (strictly if lo_strict)
            if k > 0 or (k == 0 and lo_strict):
                return False
            if kind == "lt" and k >= 0:
                return False
        if hi:  # d <= k (strictly if hi_strict)
            if k < 0 or (k == 0 and hi_strict):
                return kind != "eq"
            if kind == "le" and k <= 0:
                return True
        return None

    def decide(self, c, k, kind):
        """Truth value, on the current path, of  (k + c.x) <kind> 0  with kind in le/lt/eq."""
        self.ndec += 1
        c = self._sparse(c)
        r = self.trivial(c, k, kind)
        if r is not None:
            self.ntriv += 1
            return r
        c, k = self._norm(c, k)
        if not self.real and kind == "lt":
            # integers: d < 0  <=>  d + 1 <= 0 ; keeps the cache small
            kind, k = "le", k + 1
        key = (tuple(sorted(c.items())), k, kind)
        r = self.known.get(key)
        if r is not None:
            self.ncache += 1
            return r
        ze = self._zexpr(c, k)
        cond = (ze <= 0) if kind == "le" else (ze < 0) if kind == "lt" else (ze == 0)
        return self._decide_z(cond, key)

    def decide_cond(self, cond):
        """Truth value on the current path of an arbitrary z3 condition (used by Term)."""
        self.ndec += 1
        cond = z3.simplify(cond)
        if z3.is_true(cond):
            self.ntriv += 1
            return True
        if z3.is_false(cond):
            self.ntriv += 1
            return False
        key = ("z", cond.get_id())
        r = self.known.get(key)
        if r is not None:
            self.ncache += 1
            return r
        self._keep.append(cond)   # keep the AST alive so that its id is not recycled
        return self._decide_z(cond, key)

    def _decide_z(self, cond, key):
        mv = None
        if self.model is not None:
            ev = self.model.eval(cond, model_completion=True)
            if z3.is_true(ev):
                mv = True
            elif z3.is_false(ev):
                mv = False
        if mv is None:
            t = self._check(cond)
            f = self._check(z3.Not(cond))
            if not (t or f):
                raise Inconclusive("path condition became unsatisfiable")
            take = t
            both = t and f
            if both:
                self.model = None
        else:
            self.nmodel += 1
            other = self._check(z3.Not(cond) if mv else cond)
            take = mv
            both = other
        if both:
            self.nforks += 1
            k2 = dict(self.known)
            k2[key] = not take
            self.work.append((self.lits + [(cond, not take)], k2))
            self.lits.append((cond, take))
            self.solver.add(cond if take else z3.Not(cond))
            if self.model is None:
                if not self._check():
                    raise Inconclusive("internal: taken branch unsat")
                self.model = self.solver.model()
        self.known[key] = take
        return take

    # ------------------------------------------------------------------ exploration
    def paths(self):
        """
        Generator over feasible paths.  Usage::

            for _ in ctx.paths():
                result = code_under_test(...)      # runs under the path's PC
                ctx.prove(...)                      # obligations, PC still asserted

        The body must run the code under test again on every iteration.
        """
        self.work = [([], {})]
        self._t0 = time.time()
        while self.work:
            lits, known = self.work.pop()
            if self.npaths >= self.max_paths:
                raise Inconclusive(f"path cap {self.max_paths} reached")
            self.solver.push()
            try:
                for cond, val in lits:
                    self.solver.add(cond if val else z3.Not(cond))
                self.lits = list(lits)
                self.known = dict(known)
                if not self._check():
                    if not lits:
                        raise Inconclusive("preconditions unsatisfiable (vacuous)")
                    raise Inconclusive("internal: queued path condition unsat")
                self.model = self.solver.model()
                self.npaths += 1
                yield self.npaths
            finally:
                self.solver.pop()

    def abandon_path(self):
        """Nothing to do: the generator pops the solver frame; kept for readability."""

    # ------------------------------------------------------------------ obligations
    def prove(self, claim):
        """
        Check that `claim` (z3 BoolRef) holds for every valuation satisfying the current PC.
        :returns: None if proven, else a dict name -> Fraction (a model of PC ∧ ¬claim)
        """
        if self._check(z3.Not(claim)):
            # _check(extra) leaves the model of that check available
            return self.model_values(self.solver.model())
        return None

    def prove_raw(self, claim, zvars):
        """Like prove, for claims over z3 variables not declared in the Ctx: returns their values or None."""
        if self._check(z3.Not(claim)):
            m = self.solver.model()
            return [m.eval(z, model_completion=True).as_long() for z in zvars]
        return None

    def model_values_z(self, zvars):
        return [self.model.eval(z, model_completion=True).as_long() for z in zvars]

    def sat(self, claim):
        """Is PC ∧ claim satisfiable?  Returns model values or None."""
        if self._check(claim):
            return self.model_values(self.solver.model())
        return None

    def model_values(self, model=None):
        model = model if model is not None else self.model
        out = {}
        for n, v in zip(self.names, self.zv):
            e = model.eval(v, model_completion=True)
            if z3.is_int_value(e):
                out[n] = e.as_long()
            else:
                out[n] = Fraction(e.numerator_as_long(), e.denominator_as_long())
        return out

    def current_value(self, lin):
        """Value of a Lin in the model of the current PC (witness printing only)."""
        if self._mv_model is not self.model:
            self._mv_cache = self.model_values()
            self._mv_model = self.model
        mv = self._mv_cache
        names = self.names
        return lin.k + sum(ci * mv[names[i]] for i, ci in lin.d.items())

    def pc_text(self, limit=12):
        out = []
        for cond, val in self.lits[:limit]:
            out.append(str(cond if val else z3.Not(cond)).replace("\n", " "))
        if len(self.lits) > limit:
            out.append(f"... (+{len(self.lits) - limit})")
        return out

    def stats(self):
        return {
            "paths": self.npaths,
            "decisions": self.ndec,
            "decided_trivially": self.ntriv,
            "decided_from_cache": self.ncache,
            "one_side_from_model": self.nmodel,
            "forks": self.nforks,
            "solver_queries": self.nq,
            "solver_s": round(self.solver_s, 3),
        }


_NUM = (int, Fraction)


def _fr(x):
    """Keep integers as ints (much faster than Fractions)."""
    if isinstance(x, Fraction) and x.denominator == 1:
        return x.numerator
    return x


class Lin:
    """Affine form over the variables of a Ctx; behaves like a number for the code under test.
    Sparse: d maps variable index -> non-zero coefficient (int or Fraction), k is the constant."""

    __slots__ = ("ctx", "d", "k")

    def __init__(self, ctx, d, k):
        self.ctx = ctx
        self.d = d
        self.k = k

    @property
    def c(self):
        """Dense coefficient tuple (compatibility / printing)."""
        out = [0] * self.ctx.n
        for i, x in self.d.items():
            out[i] = x
        return tuple(out)

    # -- coercion
    @staticmethod
    def _num(o):
        """-> python number for int/bool/Fraction/finite float, else None"""
        if isinstance(o, bool):
            return int(o)
        if isinstance(o, _NUM):
            return o
        if isinstance(o, float):
            if o != o or o in (float("inf"), float("-inf")):
                return None
            return _fr(Fraction(o))
        return None

    def is_const(self):
        return not self.d

    # -- arithmetic
    def _same(self, o):
        if o.ctx is not self.ctx:
            raise OutsideEncoding("a symbolic value of another exploration reached this one: the code under test keeps values across calls")

    def __add__(self, o):
        if isinstance(o, Lin):
            self._same(o)
            d = dict(self.d)
            for i, x in o.d.items():
                v = d.get(i, 0) + x
                if v:
                    d[i] = v
                else:
                    d.pop(i, None)
            return Lin(self.ctx, d, self.k + o.k)
        n = self._num(o)
        if n is None:
            return NotImplemented
        return Lin(self.ctx, self.d, self.k + n)

    __radd__ = __add__

    def __neg__(self):
        return Lin(self.ctx, {i: -x for i, x in self.d.items()}, -self.k)

    def __pos__(self):
        return self

    def __sub__(self, o):
        if isinstance(o, Lin):
            self._same(o)
            d = dict(self.d)
            for i, x in o.d.items():
                v = d.get(i, 0) - x
                if v:
                    d[i] = v
                else:
                    d.pop(i, None)
            return Lin(self.ctx, d, self.k - o.k)
        n = self._num(o)
        if n is None:
            return NotImplemented
        return Lin(self.ctx, self.d, self.k - n)

    def __rsub__(self, o):
        n = self._num(o)
        if n is None:
            return NotImplemented
        return Lin(self.ctx, {i: -x for i, x in self.d.items()}, n - self.k)

    def __mul__(self, o):
        if isinstance(o, Lin):
            if o.is_const():
                o = o.k
            elif self.is_const():
                return o * self.k
            else:
                raise OutsideEncoding("product of two symbolic values")
        n = self._num(o)
        if n is None:
            return NotImplemented
        if n == 0:
            return Lin(self.ctx, {}, 0)
        return Lin(self.ctx, {i: _fr(x * n) for i, x in self.d.items()}, _fr(self.k * n))

    __rmul__ = __mul__

    def __truediv__(self, o):
        if isinstance(o, Lin):
            if not o.is_const():
                raise OutsideEncoding("division by a symbolic value")
            o = o.k
        n = self._num(o)
        if n is None:
            return NotImplemented
        if n == 0:
            raise ZeroDivisionError("division by zero")
        return Lin(self.ctx, {i: _fr(Fraction(x) / n) for i, x in self.d.items()}, _fr(Fraction(self.k) / n))

    def __rtruediv__(self, o):
        if self.is_const():
            return Fraction(o) / self.k
        raise OutsideEncoding("division by a symbolic value")

    def __floordiv__(self, o):
        raise OutsideEncoding("floor division of a symbolic value")

    __rfloordiv__ = __mod__ = __rmod__ = __pow__ = __rpow__ = __floordiv__

    def __abs__(self):
        return -self if self < 0 else self

    # -- comparisons (decide / fork)
    def _cmp(self, o, kind, swap=False):
        if not isinstance(o, Lin):
            n = self._num(o)
            if n is None:
                return NotImplemented
            d = (n - self) if swap else (self - n)
        else:
            d = (o - self) if swap else (self - o)
        return self.ctx.decide(d.d, d.k, kind)

    def __le__(self, o):
        return self._cmp(o, "le")

    def __lt__(self, o):
        return self._cmp(o, "lt")

    def __ge__(self, o):
        return self._cmp(o, "le", True)

    def __gt__(self, o):
        return self._cmp(o, "lt", True)

    def __eq__(self, o):
        if not isinstance(o, Lin):
            n = self._num(o)
            if n is None:
                if isinstance(o, float):
                    return False
                return NotImplemented
            d = self - n
        else:
            d = self - o
        return self.ctx.decide(d.d, d.k, "eq")

    def __ne__(self, o):
        r = self.__eq__(o)
        if r is NotImplemented:
            return r
        return not r

    def __bool__(self):
        return not self.ctx.decide(self.d, self.k, "eq")

    def __hash__(self):
        raise OutsideEncoding("hash of a symbolic value")

    # -- witnesses (printing only; no branch may depend on these)
    def __float__(self):
        if self.is_const():
            return float(self.k)
        if not self.ctx.allow_float:
            # e.g. math.isclose(cost_a, cost_b): the code under test would branch on one model's numbers without the path knowing
            raise OutsideEncoding("float() of a symbolic value (the code converts a symbolic quantity to a float)")
        return float(self.ctx.current_value(self))

    def __round__(self, ndigits=None):
        return round(float(self), ndigits)

    def __index__(self):
        if self.is_const() and Fraction(self.k).denominator == 1:
            return int(self.k)
        raise OutsideEncoding("symbolic value used as an index")

    __int__ = __index__

    def __format__(self, spec):
        if not spec and not (self.is_const() or self.ctx.allow_float):
            return repr(self)          # f"{cost}" in a message: show the affine form
        return format(float(self), spec)

    def __repr__(self):
        names = self.ctx.names
        s = " + ".join((names[i] if c == 1 else f"{c}*{names[i]}") for i, c in sorted(self.d.items()))
        if self.k or not s:
            s = f"{s} + {self.k}" if s else str(self.k)
        return f"<{s}>"

    __str__ = __repr__


class Term:
    """Opaque symbolic value (a z3 Int/Real term) for data that is only compared, moved and minimised.

    Comparisons fork like Lin comparisons.  Where the code under test calls the builtin min/max the
    harness may bind `ite_min` / `ite_max` in the module under test so that no fork is needed.
    """

    __slots__ = ("ctx", "z")

    def __init__(self, ctx, z):
        self.ctx = ctx
        self.z = z

    def _oz(self, o):
        if isinstance(o, Term):
            return o.z
        if isinstance(o, bool):
            return None
        if isinstance(o, int):
            return z3.IntVal(o)
        return None

    def _cmp(self, o, f):
        oz = self._oz(o)
        if oz is None:
            return NotImplemented
        return self.ctx.decide_cond(f(self.z, oz))

    def __lt__(self, o):
        return self._cmp(o, lambda a, b: a < b)

    def __le__(self, o):
        return self._cmp(o, lambda a, b: a <= b)

    def __gt__(self, o):
        return self._cmp(o, lambda a, b: a > b)

    def __ge__(self, o):
        return self._cmp(o, lambda a, b: a >= b)

    def __eq__(self, o):
        return self._cmp(o, lambda a, b: a == b)

    def __ne__(self, o):
        r = self.__eq__(o)
        return r if r is NotImplemented else not r

    def __bool__(self):
        # truthiness of a Python number: x != 0 (forks like any other decision)
        return not self.ctx.decide_cond(self.z == 0)

    def __hash__(self):
        raise OutsideEncoding("hash of a symbolic value")

    def __repr__(self):
        return f"Term({self.z})"


def ite_min(*args):
    """Model of the builtin min(a, b, ...) on Terms: left-biased, merged with ite instead of forking."""
    if len(args) == 1:
        args = tuple(args[0])
    r = args[0]
    for b in args[1:]:
        if isinstance(r, Term) or isinstance(b, Term):
            ctx = r.ctx if isinstance(r, Term) else b.ctx
            rz = r.z if isinstance(r, Term) else z3.IntVal(r)
            bz = b.z if isinstance(b, Term) else z3.IntVal(b)
            r = Term(ctx, z3.If(bz < rz, bz, rz))
        else:
            r = b if b < r else r
    return r


def ite_max(*args):
    if len(args) == 1:
        args = tuple(args[0])
    r = args[0]
    for b in args[1:]:
        if isinstance(r, Term) or isinstance(b, Term):
            ctx = r.ctx if isinstance(r, Term) else b.ctx
            rz = r.z if isinstance(r, Term) else z3.IntVal(r)
            bz = b.z if isinstance(b, Term) else z3.IntVal(b)
            r = Term(ctx, z3.If(bz > rz, bz, rz))
        else:
            r = b if b > r else r
    return r
