"""Oracle 3.1: enumerate every valid reconciliation with its event map and count vector.

Written from the documented event model, independent of superrec2:
  a node at species s with children at sl, sr:
    both children at-or-below s:  SPECIATION iff s = lca(sl, sr) and sl, sr incomparable
                                  (full losses d(s,sl)+d(s,sr)-2), else DUPLICATION (d(s,sl)+d(s,sr))
    exactly one child at-or-below s, the other neither above nor below s: TRANSFER (d(s, kept))
    anything else invalid.
Counts are (n_spe, n_dup, n_hgt, n_floss).
"""
import itertools


def classify(S, s, sl, sr):
    """-> (event, floss, kept_side) or None if invalid. kept_side only for 'T' (0 left, 1 right)."""
    dl, dr = S.is_anc(s, sl), S.is_anc(s, sr)
    if dl and dr:
        if s == S.lca(sl, sr) and not S.comparable(sl, sr):
            return ("S", S.depth[sl] + S.depth[sr] - 2 * S.depth[s] - 2, None)
        return ("D", S.depth[sl] + S.depth[sr] - 2 * S.depth[s], None)
    if dl or dr:
        kept, other = (sl, sr) if dl else (sr, sl)
        if S.is_anc(other, s):   # the other child strictly above s: not a transfer
            return None
        return ("T", S.depth[kept] - S.depth[s], 0 if dl else 1)
    return None


def evaluate(O, S, m):
    """Count vector / events of a complete mapping (dict object node -> species node) or None."""
    cnt = [0, 0, 0, 0]
    ev, kept = {}, {}
    for u in O.internals:
        l, r = O.children[u]
        c = classify(S, m[u], m[l], m[r])
        if c is None:
            return None
        kind, fl, ks = c
        cnt["SDT".index(kind)] += 1
        cnt[3] += fl
        ev[u] = kind
        if ks is not None:
            kept[u] = ks
    return tuple(cnt), ev, kept


def enumerate_recs(O, S, leafmap):
    """
    :param O, S: OTree of object and species tree (binary)
    :param leafmap: dict object leaf name -> species leaf name
    :yields: (mapping dict, counts, events dict, kept-side dict)
    """
    base = {i: S.by_name[leafmap[O.name[i]]] for i in O.leaves}
    order = [u for u in O.postorder() if O.children[u]]

    def rec(k, m):
        if k == len(order):
            res = evaluate(O, S, m)
            if res is not None:
                yield dict(m), res[0], res[1], res[2]
            return
        u = order[k]
        l, r = O.children[u]
        for s in range(S.n):
            if classify(S, s, m[l], m[r]) is None:
                continue
            m[u] = s
            yield from rec(k + 1, m)
        del_u = m.pop(u, None)

    yield from rec(0, dict(base))


def lca_mapping(O, S, leafmap):
    m = {i: S.by_name[leafmap[O.name[i]]] for i in O.leaves}
    for u in O.postorder():
        if O.children[u]:
            m[u] = S.lca(*[m[c] for c in O.children[u]])
    return m
