"""Independent tree representation for the oracles: nested tuples -> parent arrays.

Shares no code with superrec2.  A tree is a nested tuple whose leaves are strings; internal nodes
are named `<prefix><preorder index>`.  Node ids are pre-order indices.
"""
import itertools


class OTree:
    def __init__(self, t, prefix="n", names=None):
        self.t = t
        self.nodes, self.parent, self.children, self.depth, self.name = [], [], [], [], []

        def rec(x, p):
            i = len(self.nodes)
            self.nodes.append(x)
            self.parent.append(p)
            self.children.append([])
            self.depth.append(0 if p is None else self.depth[p] + 1)
            self.name.append(x if isinstance(x, str) else f"{prefix}{i}")
            if p is not None:
                self.children[p].append(i)
            if not isinstance(x, str):
                for c in x:
                    rec(c, i)
            return i

        rec(t, None)
        if names:
            for i, n in names.items():
                self.name[i] = n
        self.n = len(self.nodes)
        self.leaves = [i for i in range(self.n) if not self.children[i]]
        self.internals = [i for i in range(self.n) if self.children[i]]
        self.anc = []
        for i in range(self.n):
            s, j = [i], i
            while self.parent[j] is not None:
                j = self.parent[j]
                s.append(j)
            self.anc.append(s)
        self.ancset = [frozenset(a) for a in self.anc]
        self.by_name = {n: i for i, n in enumerate(self.name)}

    def is_anc(self, a, b):
        """a is an ancestor of b or b itself."""
        return a in self.ancset[b]

    def comparable(self, a, b):
        return self.is_anc(a, b) or self.is_anc(b, a)

    def lca(self, *nodes):
        common = self.anc[nodes[0]]
        for x in nodes[1:]:
            common = [y for y in common if y in self.ancset[x]]
        return common[0]

    def dist(self, a, b):
        l = self.lca(a, b)
        return self.depth[a] + self.depth[b] - 2 * self.depth[l]

    def subtree(self, i):
        return [j for j in range(self.n) if i in self.ancset[j]]

    def leafset(self, i):
        return frozenset(self.name[j] for j in self.subtree(i) if not self.children[j])

    def clades(self):
        return frozenset(self.leafset(i) for i in self.internals)

    def postorder(self):
        out = []

        def rec(i):
            for c in self.children[i]:
                rec(c)
            out.append(i)

        rec(0)
        return out

    def newick(self, features=None):
        features = features or {}

        def rec(i):
            s = self.name[i]
            if self.children[i]:
                s = "(" + ",".join(rec(c) for c in self.children[i]) + ")" + s
            if i in features:
                s += "[&&NHX:" + ":".join(f"{k}={v}" for k, v in features[i].items()) + "]"
            return s

        return rec(0) + ";"


def plane_shapes(leaves):
    """All plane (ordered) binary trees with the given leaf sequence, as nested tuples."""
    leaves = list(leaves)
    if len(leaves) == 1:
        yield leaves[0]
        return
    for k in range(1, len(leaves)):
        for l in plane_shapes(leaves[:k]):
            for r in plane_shapes(leaves[k:]):
                yield (l, r)


def labelled_shapes(leaves):
    """All unordered binary trees on a labelled leaf set ((2n-3)!! of them)."""
    leaves = list(leaves)
    if len(leaves) == 1:
        yield leaves[0]
        return
    first, rest = leaves[0], leaves[1:]
    for k in range(0, len(rest)):
        for comb in itertools.combinations(rest, k):
            left = [first] + list(comb)
            right = [x for x in rest if x not in comb]
            for l in labelled_shapes(left):
                for r in labelled_shapes(right):
                    yield (l, r)


def random_plane_tree(rng, leaves):
    leaves = list(leaves)
    if len(leaves) == 1:
        return leaves[0]
    k = rng.randint(1, len(leaves) - 1)
    return (random_plane_tree(rng, leaves[:k]), random_plane_tree(rng, leaves[k:]))


def multifurcating_shapes(leaves, max_arity=None):
    """All plane trees (every internal node >= 2 children) with the given leaf sequence."""
    leaves = list(leaves)
    if len(leaves) == 1:
        yield leaves[0]
        return

    def splits(seq):
        # split seq into >= 1 consecutive non-empty blocks
        if not seq:
            yield []
            return
        for k in range(1, len(seq) + 1):
            for rest in splits(seq[k:]):
                yield [seq[:k]] + rest

    for blocks in splits(leaves):
        if len(blocks) < 2:
            continue
        if max_arity and len(blocks) > max_arity:
            continue
        for combo in itertools.product(*[list(multifurcating_shapes(b, max_arity)) for b in blocks]):
            yield tuple(combo)


def nwk(t):
    return t if isinstance(t, str) else "(" + ",".join(nwk(c) for c in t) + ")"
