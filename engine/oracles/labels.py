"""Oracles 3.2 / 3.3: synteny labellings (ordered and unordered) and their segmental-loss counts.

Independent of superrec2: plain Python lists and sets, no bit masks.
"""
import itertools
from functools import lru_cache


# ----------------------------------------------------------------------------- ordered
def is_subseq(c, p):
    it = iter(p)
    return all(g in it for g in c)


def runs(child, parent, count_ends):
    """Number of maximal runs of consecutive parent genes absent from child."""
    cs = set(child)
    present = [g in cs for g in parent]
    blocks, cur = [], None
    for i, pr in enumerate(present):
        if not pr:
            if cur is None:
                cur = [i, i]
            else:
                cur[1] = i
        elif cur is not None:
            blocks.append(cur)
            cur = None
    if cur is not None:
        blocks.append(cur)
    if not count_ends:
        blocks = [b for b in blocks if b[0] != 0 and b[1] != len(parent) - 1]
    return len(blocks)


def ordered_node_cost(kind, kept, P, L, R):
    """Segmental losses charged at one internal node; None if a child is not a subsequence."""
    if not (is_subseq(L, P) and is_subseq(R, P)):
        return None
    if kind == "S":
        return runs(L, P, True) + runs(R, P, True)
    if kind == "D":
        return min(runs(L, P, True) + runs(R, P, False), runs(L, P, False) + runs(R, P, True))
    keptS, moved = (L, R) if kept == 0 else (R, L)
    return runs(keptS, P, True) + runs(moved, P, False)


def root_orders(O, leaf_syn, prescribed=None):
    fams = sorted(set(g for s in leaf_syn.values() for g in s))
    if prescribed is not None:
        orders = [list(prescribed)]
    else:
        orders = [list(p) for p in itertools.permutations(fams)]
    return [o for o in orders if all(is_subseq(leaf_syn[O.name[i]], o) for i in O.leaves)]


def subsequences(order):
    return [tuple(g for g, b in zip(order, bits) if b) for bits in itertools.product([0, 1], repeat=len(order))]


def ordered_labellings(O, leaf_syn, prescribed=None):
    """Every valid ordered labelling: dict node -> tuple of families (brute force)."""
    nonroot = [i for i in O.internals if i != 0]
    for R in root_orders(O, leaf_syn, prescribed):
        subs = subsequences(R)
        for combo in itertools.product(subs, repeat=len(nonroot)):
            syn = {0: tuple(R)} if O.children[0] else {}
            syn.update(zip(nonroot, combo))
            for i in O.leaves:
                syn[i] = tuple(leaf_syn[O.name[i]])
            if all(is_subseq(syn[i], syn[O.parent[i]]) for i in range(1, O.n)):
                yield syn


def ordered_sloss(O, ev, kept, syn):
    n = 0
    for u, kind in ev.items():
        l, r = O.children[u]
        c = ordered_node_cost(kind, kept.get(u), syn[u], syn[l], syn[r])
        if c is None:
            return None
        n += c
    return n


def ordered_min_sloss(O, ev, kept, leaf_syn, prescribed=None):
    """Exact minimum over all ordered labellings (memoised exhaustive recursion); None if none."""
    best = None
    for R in root_orders(O, leaf_syn, prescribed):
        subs = subsequences(R)

        @lru_cache(maxsize=None)
        def f(u, P):
            if not O.children[u]:
                return 0 if tuple(leaf_syn[O.name[u]]) == P else None
            l, r = O.children[u]
            bestu = None
            for L in (subs if O.children[l] else [tuple(leaf_syn[O.name[l]])]):
                fl = f(l, L)
                if fl is None or not is_subseq(L, P):
                    continue
                for Rr in (subs if O.children[r] else [tuple(leaf_syn[O.name[r]])]):
                    fr = f(r, Rr)
                    if fr is None:
                        continue
                    c = ordered_node_cost(ev[u], kept.get(u), P, L, Rr)
                    if c is None:
                        continue
                    t = c + fl + fr
                    if bestu is None or t < bestu:
                        bestu = t
            return bestu

        v = f(0, tuple(R))
        if v is not None and (best is None or v < best):
            best = v
    return best


# ----------------------------------------------------------------------------- unordered
def family_info(O, leaf_syn):
    """per family: (family, gain node, required presence set, all allowed presence sets)."""
    fams = sorted(set(g for s in leaf_syn.values() for g in s))
    out = []
    for f in fams:
        carr = [i for i in O.leaves if f in leaf_syn[O.name[i]]]
        g = O.lca(*carr)
        required = set()
        for c in carr:
            x = c
            while True:
                required.add(x)
                if x == g:
                    break
                x = O.parent[x]
        optional = [i for i in O.subtree(g) if O.children[i] and i not in required]
        choices = []
        for k in range(len(optional) + 1):
            for comb in itertools.combinations(optional, k):
                pres = required | set(comb)
                if all(i == g or O.parent[i] in pres for i in pres):
                    choices.append(frozenset(pres))
        out.append((f, g, frozenset(required), choices))
    return out


def unordered_labellings(O, leaf_syn):
    """yield (syn dict node -> frozenset, canonical flag)"""
    info = family_info(O, leaf_syn)
    gains = {i: set(f for (f, g, _, _) in info if g == i) for i in range(O.n)}
    reqc = {i: set(f for (f, g, req, _) in info if i in req) for i in range(O.n)}
    for combo in itertools.product(*[c[3] for c in info]):
        syn = {i: set() for i in range(O.n)}
        for (f, _, _, _), pres in zip(info, combo):
            for i in pres:
                syn[i].add(f)
        canonical = True
        for i in O.internals:
            s = syn[i]
            par = syn[O.parent[i]] if O.parent[i] is not None else None
            if not (s == reqc[i] or (par is not None and s == par | gains[i])):
                canonical = False
        yield {i: frozenset(s) for i, s in syn.items()}, canonical


def unordered_sloss(O, ev, kept, syn):
    n = 0
    for u, kind in ev.items():
        l, r = O.children[u]
        P, L, R = syn[u], syn[l], syn[r]
        cl = 0 if P <= L else 1
        cr = 0 if P <= R else 1
        if kind == "S":
            n += cl + cr
        elif kind == "D":
            n += min(cl, cr)
        else:
            n += cl if kept[u] == 0 else cr
    return n


def unordered_valid(O, leaf_syn, syn):
    """Structural validity of an unordered labelling (C04 wording)."""
    info = family_info(O, leaf_syn)
    for i in O.leaves:
        if set(syn[i]) != set(leaf_syn[O.name[i]]):
            return f"leaf {O.name[i]} synteny differs from input"
    allf = set(f for f, _, _, _ in info)
    for i in range(O.n):
        if not set(syn[i]) <= allf:
            return f"node {O.name[i]} holds an unknown family"
    for f, g, req, _ in info:
        pres = set(i for i in range(O.n) if f in syn[i])
        if not pres <= set(O.subtree(g)):
            return f"family {f} occurs outside the subtree of its gain node {O.name[g]}"
        for i in pres:
            if i != g and O.parent[i] not in pres:
                return f"family {f} at {O.name[i]} but not at its parent"
    return None
