"""Oracle 3.5: declarative SAT specifications of output *sets* (z3 Booleans).

* binary refinements of a tree T on leaf set L: one Boolean per subset S of L with |S| >= 2; the
  chosen subsets are pairwise nested or disjoint (laminar), contain L and every clade of T and
  number exactly |L| - 1  (a laminar family of that size over L is a binary tree);
* binary trees displaying a set of rooted triples ab|c: same variables + for each triple some
  chosen clade contains a and b but not c.
No code is shared with superrec2.
"""
import itertools

import z3


class CladeSpec:
    def __init__(self, leaves, required_clades=(), triples=()):
        self.leaves = sorted(leaves)
        n = len(self.leaves)
        self.idx = {l: i for i, l in enumerate(self.leaves)}
        self.subsets = [frozenset(c) for k in range(2, n + 1) for c in itertools.combinations(self.leaves, k)]
        self.var = {S: z3.Bool("c_" + "_".join(sorted(S))) for S in self.subsets}
        self.solver = z3.Solver()
        s = self.solver
        full = frozenset(self.leaves)
        if n >= 2:
            s.add(self.var[full])
        for A, B in itertools.combinations(self.subsets, 2):
            if A & B and not (A <= B or B <= A):
                s.add(z3.Not(z3.And(self.var[A], self.var[B])))
        if self.subsets:
            s.add(z3.PbEq([(v, 1) for v in self.var.values()], max(n - 1, 0)))
        for c in required_clades:
            c = frozenset(c)
            if len(c) >= 2:
                s.add(self.var[c])
        for a, b, c in triples:
            opts = [self.var[S] for S in self.subsets if a in S and b in S and c not in S]
            s.add(z3.Or(*opts) if opts else z3.BoolVal(False))

    def is_model(self, clades):
        """Do these clades (iterable of leaf-name sets, sizes >= 2) satisfy the specification?"""
        clades = set(frozenset(c) for c in clades if len(c) >= 2)
        if not clades <= set(self.subsets):
            return False
        assumptions = [self.var[S] if S in clades else z3.Not(self.var[S]) for S in self.subsets]
        return str(self.solver.check(*assumptions)) == "sat"

    def satisfiable(self):
        r = str(self.solver.check())
        if r == "unknown":
            raise RuntimeError("z3 unknown on clade spec")
        return r == "sat"

    def complete(self, outputs):
        """Is every model among `outputs` (list of clade sets)?  True iff spec and not(any output) is unsat."""
        self.solver.push()
        try:
            for clades in outputs:
                clades = set(frozenset(c) for c in clades if len(c) >= 2)
                self.solver.add(z3.Not(z3.And(*[self.var[S] if S in clades else z3.Not(self.var[S]) for S in self.subsets])))
            r = str(self.solver.check())
            if r == "unknown":
                raise RuntimeError("z3 unknown on completeness query")
            if r == "sat":
                m = self.solver.model()
                return False, [S for S in self.subsets if z3.is_true(m.eval(self.var[S], model_completion=True))]
            return True, None
        finally:
            self.solver.pop()

    def models(self, limit=100000):
        """Enumerate all models (as lists of clades) by blocking."""
        out = []
        self.solver.push()
        try:
            while str(self.solver.check()) == "sat":
                m = self.solver.model()
                cl = [S for S in self.subsets if z3.is_true(m.eval(self.var[S], model_completion=True))]
                out.append(cl)
                if len(out) > limit:
                    raise RuntimeError("too many models")
                self.solver.add(z3.Not(z3.And(*[self.var[S] if S in cl else z3.Not(self.var[S]) for S in self.subsets])))
            return out
        finally:
            self.solver.pop()


def tree_from_clades(leaves, clades):
    """Nested tuple (children ordered by smallest leaf) of the tree with exactly these clades."""
    leaves = sorted(leaves)
    clades = sorted((frozenset(c) for c in clades if len(c) >= 2), key=len)

    def build(S):
        inner = [c for c in clades if c < S]
        maximal = [c for c in inner if not any(c < d for d in inner)]
        covered = set().union(*maximal) if maximal else set()
        kids = [build(c) for c in maximal] + [l for l in S if l not in covered]
        kids.sort(key=lambda t: min(_leaves(t)))
        return tuple(kids)

    if len(leaves) == 1:
        return leaves[0]
    return build(frozenset(leaves))


def _leaves(t):
    if isinstance(t, str):
        return [t]
    return [l for c in t for l in _leaves(c)]


def clades_of_tuple(t):
    out = set()

    def rec(x):
        if isinstance(x, str):
            return frozenset([x])
        s = frozenset().union(*[rec(c) for c in x])
        out.add(s)
        return s

    rec(t)
    return out


def refinements(t):
    """All binary refinements of nested tuple t, produced from the SAT models (independent of superrec2.binarize)."""
    leaves = _leaves(t)
    if len(leaves) == 1:
        return [t]
    spec = CladeSpec(leaves, required_clades=clades_of_tuple(t))
    return [tree_from_clades(leaves, m) for m in spec.models()]


def double_factorial_count(t):
    """prod over nodes with k children of (2k-3)!!"""
    if isinstance(t, str):
        return 1
    k = len(t)
    r = 1
    for i in range(3, 2 * k - 2, 2):
        r *= i
    for c in t:
        r *= double_factorial_count(c)
    return r
