"""Glue between input descriptors (plain JSON-able data), superrec2 objects and the oracles."""
import io
import sys

from infinity import inf

from .forksym import Ctx, Lin
from .oracles.trees import OTree

# --- stubs (environment): progress bars are identity, stderr is a sink ------------------------
import superrec2.compute.super_reconciliation as _S
import superrec2.compute.unordered_super_reconciliation as _U


def _no_tqdm(it, **_kw):
    return it


_S.tqdm = _no_tqdm
_U.tqdm = _no_tqdm

STUBS = ["tqdm -> identity (progress bars only)", "sys.stderr -> sink while the code under test runs"]

from superrec2.model.reconciliation import (  # noqa: E402
    EdgeEvent,
    NodeEvent,
    ReconciliationInput,
    SuperReconciliationInput,
)

COST_NAMES = ["spe", "dup", "hgt", "floss", "sloss"]
COST_KEYS = {
    "spe": "SPECIATION",
    "dup": "DUPLICATION",
    "hgt": "HORIZONTAL_TRANSFER",
    "floss": "FULL_LOSS",
    "sloss": "SEGMENTAL_LOSS",
}


def totuple(x):
    if isinstance(x, (list, tuple)):
        return tuple(totuple(y) for y in x)
    return x


class quiet:
    """Silence stderr (warnings printed by the package) while the code under test runs."""

    def __enter__(self):
        self._old = sys.stderr
        sys.stderr = io.StringIO()

    def __exit__(self, *a):
        sys.stderr = self._old


def cost_ctx(symbolic, fixed=None, coherent=True, with_sloss=True, signed=True, **kw):
    """
    Build a Ctx for unit costs.
    :param symbolic: names of the costs that are symbolic (subset of COST_NAMES)
    :param fixed: dict name -> concrete value (int or inf) for the others
    :returns: (ctx, costs dict name -> Lin|int|inf)
    """
    fixed = dict(fixed or {})
    sign = "nonneg" if signed else None
    ctx = Ctx([(n, "Int", sign) for n in symbolic], **kw)
    costs = {}
    for n in COST_NAMES:
        if n in symbolic:
            costs[n] = ctx.var(n)
        else:
            costs[n] = fixed.get(n, {"spe": 0, "dup": 1, "hgt": 1, "floss": 1, "sloss": 1}[n])
    if coherent:
        lhs = costs["spe"] + (2 * costs["sloss"] if with_sloss else 0)
        rhs = costs["dup"] + 2 * costs["floss"]
        d = lhs - rhs
        if isinstance(d, Lin):
            ctx.solver.add(ctx.z(d) <= 0)
            ctx.pre.append(ctx.z(d) <= 0)
        elif d > 0:
            raise ValueError("fixed costs outside the coherent region")
    return ctx, costs


def costs_dict(costs, order=0):
    """Cost mapping keyed by event name; `order` picks one of ten key orders (a mapping has no canonical order)."""
    names = list(costs)
    k = order % 5
    names = names[k:] + names[:k]
    if (order // 5) % 2:
        names.reverse()
    return {COST_KEYS[n]: costs[n] for n in names}


def concrete_costs(costs, values):
    """Substitute model values (dict name -> number) into a costs dict."""
    out = {}
    for n, v in costs.items():
        if isinstance(v, Lin):
            x = v.k + sum(c * values[m] for c, m in zip(v.c, v.ctx.names) if c)
            out[n] = int(x) if x == int(x) else x
        else:
            out[n] = v
    return out


def cost_json(costs):
    return {n: ("inf" if v is inf else v) for n, v in costs.items()}


def cost_unjson(costs):
    return {n: (inf if v == "inf" else v) for n, v in costs.items()}


class Case:
    """An input descriptor turned into oracle trees + a superrec2 input."""

    def __init__(self, desc):
        self.desc = desc
        self.ot = totuple(desc["ot"])
        self.st = totuple(desc["st"])
        self.O = OTree(self.ot, desc.get("oprefix", "o"))
        self.S = OTree(self.st, desc.get("sprefix", "s"))
        self.leafmap = dict(desc["leafmap"])
        self.leafsyn = {k: list(v) for k, v in desc["leafsyn"].items()} if desc.get("leafsyn") else None
        self.rootsyn = list(desc["rootsyn"]) if desc.get("rootsyn") else None

    def _newick(self, T, features=None):
        if self.desc.get("brlen"):
            # branch lengths other than 1 on every edge (dated trees are ordinary inputs; the event model counts edges, not lengths)
            import random as _r
            rng = _r.Random(int(self.desc["brlen"]) * 31 + T.n)
            features = features or {}

            def rec(i):
                s = "" if (self.desc.get("unnamed") and T.children[i]) else T.name[i]
                if T.children[i]:
                    s = "(" + ",".join(rec(c) for c in T.children[i]) + ")" + s
                if T.parent[i] is not None:
                    s += ":" + rng.choice(["0", "0.5", "2", "3", "12", "30.25"])
                if i in features:
                    s += "[&&NHX:" + ":".join(f"{k}={v}" for k, v in features[i].items()) + "]"
                return s

            return rec(0) + ";"
        if not self.desc.get("unnamed"):
            return T.newick(features)
        # ancestors left unnamed (ete3 names them ''); solutions are then read back by pre-order position
        saved = list(T.name)
        T.name = [n if not T.children[i] else "" for i, n in enumerate(T.name)]
        try:
            return T.newick(features)
        finally:
            T.name = saved

    def build(self, costs):
        """costs: dict spe/dup/hgt/floss/sloss -> value.  Returns the superrec2 input."""
        d = {
            "object_tree": self._newick(self.O, {} if self.desc.get("colorattr") else
                                        {int(k): {"color": v} for k, v in (self.desc.get("ocolors") or {}).items()}),
            "species_tree": self._newick(self.S),
            "leaf_object_species": self.leafmap,
            "costs": costs_dict(costs, sum(map(ord, repr(sorted(self.leafmap.items()))))),
        }
        if self.leafsyn is not None:
            ls = dict(self.leafsyn)
            if self.desc.get("synstr") and all(len(g) == 1 for v in ls.values() for g in v):
                ls = {k: "".join(v) for k, v in ls.items()}      # one character per family, the form the package's own tests use
            if self.rootsyn is not None:
                ls[self.O.name[0]] = self.rootsyn
            d["leaf_syntenies"] = ls
            return self._ctor(SuperReconciliationInput.from_dict(d))
        return self._ctor(ReconciliationInput.from_dict(d))

    def _colorattr(self, inp):
        """desc['colorattr']: colours set on the nodes by plain attribute assignment in Python instead of NHX features in the Newick string."""
        if self.desc.get("colorattr"):
            for k, v in (self.desc.get("ocolors") or {}).items():
                (inp.object_tree & self.O.name[int(k)]).color = v
        return inp

    def _ctor(self, inp):
        inp = self._colorattr(inp)
        return self._ctor2(inp)

    def _ctor2(self, inp):
        """desc['ctor']: the same input handed to the CONSTRUCTOR the way a program may build it: mapping keys in another order than the
        leaves of the tree, leaf syntenies collected in a defaultdict."""
        k = self.desc.get("ctor")
        if not k:
            return inp
        import collections
        import dataclasses
        import random
        rng = random.Random(k)
        los = list(inp.leaf_object_species.items())
        rng.shuffle(los)
        kw = {"leaf_object_species": dict(los)}
        if self.leafsyn is not None:
            ls = list(inp.leaf_syntenies.items())
            rng.shuffle(ls)
            box = collections.defaultdict(list) if k % 2 else {}
            box.update(ls)
            kw["leaf_syntenies"] = box
        return dataclasses.replace(inp, **kw)

    def mapping_of(self, out):
        """superrec2 output -> oracle mapping dict (object index -> species index), or error str."""
        m = {}
        if self.desc.get("unnamed"):
            oi = {id(n): i for i, n in enumerate(out.input.object_tree.traverse("preorder"))}
            si = {id(n): i for i, n in enumerate(out.input.species_lca.tree.traverse("preorder"))}
            for k, v in out.object_species.items():
                m[oi[id(k)]] = si[id(v)]
            return m
        for k, v in out.object_species.items():
            m[self.O.by_name[k.name]] = self.S.by_name[v.name]
        return m

    def syn_of(self, out):
        return {self.O.by_name[k.name]: tuple(v) for k, v in out.syntenies.items()}

    def mapping_names(self, m):
        return {self.O.name[k]: self.S.name[v] for k, v in sorted(m.items())}


def form_z(ctx, costs, counts):
    """z3 expression / Lin of a count vector (n_spe, n_dup, n_hgt, n_floss[, n_sloss]) priced by costs.
    Returns None if the form is infinite (a transfer under an infinite transfer cost)."""
    total = 0
    for n, name in zip(counts, COST_NAMES):
        if not n:
            continue
        c = costs[name]
        if c is inf:
            return None
        total = total + n * c
    return total


def form_value(costs, counts):
    total = 0
    for n, name in zip(counts, COST_NAMES):
        if n:
            if costs[name] is inf:
                return inf
            total += n * costs[name]
    return total
