"""Engine C: CrossHair 0.0.110 on generated PEP-316 harness modules (string contracts only)."""
import importlib.util
import os
import re
import shutil
import subprocess
import sys
import tempfile
import time


def run(source, per_condition_timeout=40, extra_path=()):
    """
    Write `source` to a scratch module, run `crosshair check --report_all` on it.
    :returns: dict function name -> {"verdict": confirmed|counterexample|inconclusive, "detail": str, "reproduced": bool|None}
    """
    tmp = tempfile.mkdtemp(prefix="vxh_")
    try:
        path = os.path.join(tmp, "vxh_harness.py")
        with open(path, "w") as f:
            f.write(source)
        lines = source.split("\n")
        fn_at = {}
        cur = None
        for i, l in enumerate(lines, start=1):
            m = re.match(r"def (\w+)\(", l)
            if m:
                cur = m.group(1)
            fn_at[i] = cur
        env = dict(os.environ)
        env["PYTHONPATH"] = os.pathsep.join([tmp, *extra_path, env.get("PYTHONPATH", "")])
        exe = os.path.join(os.path.dirname(sys.executable), "crosshair")
        t0 = time.time()
        p = subprocess.run([exe, "check", "--report_all", "--per_condition_timeout", str(per_condition_timeout), path],
                           capture_output=True, text=True, env=env, cwd=tmp, timeout=per_condition_timeout * 20 + 120)
        out = {}
        for l in (p.stdout + p.stderr).split("\n"):
            m = re.match(r".*vxh_harness\.py:(\d+): (\w+): (.*)", l)
            if not m:
                continue
            fn = fn_at.get(int(m.group(1)))
            msg = m.group(3)
            if "Confirmed over all paths" in msg:
                out[fn] = {"verdict": "confirmed", "detail": msg}
            elif msg.startswith("false when calling") or "when calling" in msg:
                out[fn] = {"verdict": "counterexample", "detail": msg, "reproduced": _replay(path, fn, msg)}
            else:
                out.setdefault(fn, {"verdict": "inconclusive", "detail": msg})
        out["_wall_s"] = round(time.time() - t0, 2)
        out["_raw"] = (p.stdout + p.stderr)[-1500:]
        return out
    finally:
        shutil.rmtree(tmp, ignore_errors=True)


def _replay(path, fn, msg):
    """Re-run the harness function concretely on the reported arguments; True if the postcondition fails again."""
    m = re.search(r"when calling (\w+)\((.*)\)(?: \(which|$)", msg)
    if not m:
        return None
    try:
        spec = importlib.util.spec_from_file_location("vxh_replay", path)
        mod = importlib.util.module_from_spec(spec)
        spec.loader.exec_module(mod)
        res = eval(f"{m.group(1)}({m.group(2)})", mod.__dict__)
        return res is False
    except Exception:
        return True   # raising is a failure of the contract as well
