"""C05 - 'all' returns exactly the optimal solutions, 'any' returns one of them.

Engine A: symbolic costs in the coherent region; on every feasible path of each algorithm
  all: returned solutions pairwise distinct, all optimal, equal cost for every cost vector of the
       path, and z3 proves every oracle solution that is NOT returned strictly dearer (unordered
       solvers: oracle restricted to canonical labellings, as the property states);
  any: exactly one solution, member of the 'all' result computed under the same path condition;
  empty result only if the oracle has no solution.
"""
import random
import sys

from engine import runner as R
from checks import dp_common as D
from checks import sr_common as SR
from checks import sr_main

PROP = "C05"
FLAGS = {"allset", "anyall", "opt", "empty", "valid"}
replay = SR.replay


def main(argv=None):
    tier, seed = R.tier_and_seed(argv)
    rng = random.Random(seed)
    q = tier == "quick"
    plain = list(D.plain_inputs(range(1, 4), range(1, 4))) + [D.random_plain_input(rng, 4, rng.randint(2, 4)) for _ in range(30 if q else 300)]
    if not q:
        plain += [D.random_plain_input(rng, 5, rng.randint(2, 5)) for _ in range(60)]
    un = [SR.random_super_input(rng, rng.randint(2, 4), rng.randint(1, 3), rng.randint(1, 3), False) for _ in range(60 if q else 500)]
    od = [SR.random_super_input(rng, rng.randint(2, 3), rng.randint(1, 3), rng.randint(1, 3), True, rootsyn_p=0.2, consistent_p=0.7)
          for _ in range(50 if q else 500)]
    od4 = [SR.random_super_input(rng, 4, rng.randint(2, 3), rng.randint(2, 3), True, rootsyn_p=0.1, consistent_p=0.9) for _ in range(70 if q else 500)]
    un5 = [SR.random_super_input(rng, 5, rng.randint(2, 4), rng.randint(2, 4), False) for _ in range(40 if q else 300)]
    pol = ["any", "all"]
    hist = [D.random_plain_input(rng, rng.randint(3, 4), rng.randint(2, 4)) for _ in range(6 if q else 40)]
    hist_u = [SR.random_super_input(rng, rng.randint(3, 4), rng.randint(2, 3), rng.randint(2, 3), False) for _ in range(4 if q else 30)]
    sim_p = SR.simulated_inputs(rng, 30 if q else 300, 5, 5, 0, False)
    sim_u = SR.simulated_inputs(rng, 40 if q else 900, 5 if q else 6, 3, 4, False)
    sections = [
        ("simulated inputs: thl, exh (dup, hgt symbolic)", [(d, SR.runs_for(["thl", "exh"], pol, FLAGS, "dhs")) for d in sim_p], False),
        ("simulated inputs: base_uspfs, superdtl (dup, hgt, sloss symbolic)", [(d, SR.runs_for(["base_uspfs", "superdtl"], pol, FLAGS, "dhs", inf_too=False)) for d in sim_u], False),
        ("call history (fresh interpreter; earlier calls, or the same input object with its costs changed in place): thl, exh",
         [(d, SR.history_runs(["thl", "exh"], FLAGS, ("any", "all"))) for d in hist], False),
        ("call history: base_uspfs, superdtl", [(d, SR.history_runs(["base_uspfs", "superdtl"], FLAGS, ("all",))) for d in hist_u], False),
        ("plain: thl, exh", [(d, SR.runs_for(["thl", "exh"], pol, FLAGS, "full")) for d in plain], False),
        ("unordered: base_uspfs, superdtl", [(d, SR.runs_for(["base_uspfs", "superdtl"], pol, FLAGS, "full")) for d in un], False),
        ("ordered: base_spfs, ext_spfs (<= 3 leaves x <= 3 families)", [(d, SR.runs_for(["base_spfs", "ext_spfs"], pol, FLAGS, "full")) for d in od], False),
        ("ordered, 4 leaves x 2-3 families: dup/hgt/sloss symbolic (spe=0, floss=1)", [(d, SR.runs_for(["base_spfs", "ext_spfs"], pol, FLAGS, "dhs")) for d in od4], False),
        ("unordered, 5 leaves x 2-4 families: dup/hgt/sloss symbolic (spe=0, floss=1)", [(d, SR.runs_for(["base_uspfs", "superdtl"], pol, FLAGS, "dhs")) for d in un5], False),
    ]
    if not q:
        # one structural family completely (unordered, 'all'): 4-leaf caterpillar, every assignment to two species, every leaf content over three families
        import itertools
        subs = [list(c) for k in (1, 2, 3) for c in itertools.combinations("abc", k)]
        family = [{"ot": ((("g0", "g1"), "g2"), "g3"), "st": ("A", "B"), "leafmap": dict(zip(["g0", "g1", "g2", "g3"], assign)),
                   "leafsyn": dict(zip(["g0", "g1", "g2", "g3"], combo))}
                  for assign in itertools.product("AB", repeat=4) for combo in itertools.product(subs, repeat=4)]
        sections.append(("complete family: 4-leaf caterpillar x 2 species x every leaf content over 3 families (38 416 inputs), superdtl 'all', dup/sloss symbolic",
                         [(d, [{"algo": "superdtl", "policy": "all", "sym": ["dup", "sloss"], "fixed": {"spe": 0, "floss": 1, "hgt": 1},
                                "flags": sorted(FLAGS), "coherent": True}]) for d in family], True))
    return sr_main.run(
        PROP, tier, seed, sections, ["plain", "unordered", "ordered", "dp"],
        bounds={"inputs": "plain: every input with 1-3 object x 1-3 species leaves + seeded 4-leaf (thorough: also 5-leaf) inputs; unordered: seeded 2-4 "
                          "leaves, 1-3 families; ordered: seeded 2-3 leaves, 1-3 families (with sloss = 0 every labelling ties, so the bound is small); seeded ordered 4-leaf x 2-3-family and "
                          "unordered 5-leaf x 2-4-family inputs with dup, hgt, sloss symbolic and spe = 0, floss = 1 (decoders pairing the decodings of deep children)",
                "costs": "five (plain: four) symbolic non-negative integer costs in the coherent region; second run hgt = infinity.inf",
                "oracle set": "every valid mapping x every labelling (unordered: canonical labellings only), each with its count vector"},
        explanation="Bounded symbolic verification of the retention policies end to end: on every feasible cost ordering of each algorithm z3 proves that every "
                    "oracle solution missing from the 'all' result is strictly dearer than the returned cost, that all returned solutions cost the same for "
                    "every cost vector of the path, and that the 'any' result is a single member of the 'all' result under the same path condition.",
        rule="one evaluation = one structural input explored for the listed algorithms, any + all, finite symbolic and infinite transfer cost; "
             "non-trivial = exploration forked on a cost comparison",
        outside=["cost vectors outside the coherent region", "inputs beyond the stated sizes", "non-canonical unordered labellings (excluded by the property)"],
        budget=150 if q else 5400, max_paths=6000 if q else 30000, budget_s=200.0 if q else 900.0)


if __name__ == "__main__":
    sys.exit(main())
