"""C03 - unordered super-reconciliation (SuperDTL) returns a minimum-cost solution.

Engine A: all five unit costs symbolic (coherent region spe + 2*sloss <= dup + 2*floss), real
usreconcile_extended_uspfs / usreconcile_base_uspfs explored on every feasible cost ordering;
on each path z3 proves the returned total <= every (valid mapping x any labelling between
required and allowed content) form of the independent oracle; base variant: oracle restricted
to the LCA mapping.
"""
import random
import sys

from engine import runner as R
from checks import sr_common as SR
from checks import sr_main

PROP = "C03"
FLAGS = {"opt", "valid", "empty"}
replay = SR.replay


def main(argv=None):
    tier, seed = R.tier_and_seed(argv)
    rng = random.Random(seed)
    algos = ["superdtl", "base_uspfs"]
    if tier == "quick":
        small = [SR.random_super_input(rng, 3, rng.randint(2, 3), rng.randint(1, 3), False) for _ in range(70)]
        mid = [SR.random_super_input(rng, 4, rng.randint(2, 4), 3, False) for _ in range(32)]
        big = []
        budget, mp, bs = 150, 6000, 200.0
    else:
        small = list(SR.exhaustive_super_inputs(3, 2, 2, False)) + list(SR.exhaustive_super_inputs(3, 3, 2, False))
        small += [SR.random_super_input(rng, 3, rng.randint(2, 3), 3, False) for _ in range(300)]
        mid = [SR.random_super_input(rng, 4, rng.randint(2, 4), rng.randint(2, 4), False) for _ in range(300)]
        big = [SR.random_super_input(rng, 5, rng.randint(3, 4), rng.randint(3, 4), False) for _ in range(60)]
        budget, mp, bs = 4500, 30000, 900.0
    q = tier == "quick"
    hist = [SR.random_super_input(rng, rng.randint(3, 4), rng.randint(2, 3), rng.randint(2, 3), False) for _ in range(10 if q else 80)]
    # 4-5 leaves with dup, hgt, sloss symbolic (cheaper per input: more shapes, deeper trees)
    mid2 = [SR.random_super_input(rng, rng.randint(4, 5), rng.randint(2, 4), rng.randint(2, 4), False) for _ in range(30 if q else 0)]
    deep = [SR.random_super_input(rng, rng.randint(5, 6), rng.randint(2, 4), rng.randint(2, 3), False) for _ in range(150 if q else 600)]
    sim = SR.simulated_inputs(rng, 80 if q else 800, 6, 4, 4, False)
    sections = [
        ("inputs simulated forward from the event model (segment losses, gains below the root), dup/hgt/sloss symbolic",
         [(d, SR.runs_for(algos, ["any"], FLAGS, "dhs")) for d in sim], False),
        ("call history: the same solver called earlier in the same interpreter (same input at default costs, sibling input at other costs), "
         "then explored with five symbolic costs", [(d, SR.history_runs(algos, FLAGS)) for d in hist], False),
        ("4-5 leaves, dup/hgt/sloss symbolic (spe=0, floss=1), any + all", [(d, SR.runs_for(algos, ["any", "all"], FLAGS, "dhs")) for d in mid2], False),
        ("5-6 leaves x 2-3 families, dup/hgt/sloss symbolic (spe=0, floss=1), any", [(d, SR.runs_for(algos, ["any"], FLAGS, "dhs")) for d in deep], False),
        ("3 leaves, five symbolic costs", [(d, SR.runs_for(algos, ["any", "all"], FLAGS, "full")) for d in small], tier == "thorough"),
        ("4 leaves, five symbolic costs", [(d, SR.runs_for(algos, ["any", "all"], FLAGS, "full")) for d in mid], False),
        ("5 leaves, dup/hgt/sloss symbolic (spe=0, floss=1)", [(d, SR.runs_for(algos, ["any"], FLAGS, "dhs")) for d in big], False),
    ]
    if tier == "thorough":
        # one structural family completely: both 4-leaf shapes, every assignment of the leaves to two species, every non-empty content over three families
        import itertools
        subs = [list(c) for k in (1, 2, 3) for c in itertools.combinations("abc", k)]
        family = []
        for ot in (((("g0", "g1"), "g2"), "g3"), (("g0", "g1"), ("g2", "g3"))):
            for assign in itertools.product("AB", repeat=4):
                for combo in itertools.product(subs, repeat=4):
                    family.append({"ot": ot, "st": ("A", "B"), "leafmap": dict(zip(["g0", "g1", "g2", "g3"], assign)),
                                   "leafsyn": dict(zip(["g0", "g1", "g2", "g3"], combo))})
        sections.append(("complete family: 4 leaves (caterpillar, balanced) x 2 species x every leaf content over 3 families (76 832 inputs), dup/sloss symbolic",
                         [(d, [{"algo": "superdtl", "policy": "any", "sym": ["dup", "sloss"], "fixed": {"spe": 0, "floss": 1, "hgt": 1},
                                "flags": sorted(FLAGS), "coherent": True}]) for d in family], True))
    sections = [s for s in sections if s[1]]
    return sr_main.run(
        PROP, tier, seed, sections, ["unordered", "dp"],
        bounds={"inputs": "quick: 70 seeded 3-leaf + 32 seeded 4-leaf inputs (five symbolic costs) + 30 seeded 4-5-leaf and 150 seeded 5-6-leaf inputs (dup, hgt, sloss symbolic) + 10 call-history inputs; thorough adds 600 seeded 5-6-leaf inputs and 80 call-history inputs to: thorough: every 3-leaf input over 2 families (species 2-3 leaves, "
                          "every leaf assignment, every leaf content) + 300 seeded 3-leaf/3-family + 300 seeded 4-leaf (2-4 species leaves, 2-4 families) "
                          "+ 60 seeded 5-leaf inputs",
                "costs": "spe, dup, hgt, floss, sloss: all non-negative integers with spe + 2*sloss <= dup + 2*floss; second run hgt = infinity.inf; "
                         "5-leaf inputs: dup, hgt, sloss symbolic with spe = 0, floss = 1",
                "oracle": "every valid species mapping x every labelling between required and allowed content (not only the solver's canonical ones)"},
        explanation="Bounded symbolic verification: SuperDTL and its base variant run on affine symbolic costs; every feasible cost ordering is "
                    "explored and on every path z3 proves the returned total no dearer than every solution of an independent enumerator of "
                    "mappings x family-set labellings, for all cost vectors in the coherent region.",
        rule="one evaluation = one structural input explored for superdtl + base_uspfs, any + all, finite symbolic and infinite transfer cost; "
             "non-trivial = the exploration forked on a cost comparison",
        outside=["cost vectors outside the coherent region (F-COHERENCE)", "inputs beyond the stated sizes", "multifurcating trees (C08)"],
        budget=budget, max_paths=mp, budget_s=bs)


if __name__ == "__main__":
    sys.exit(main())
