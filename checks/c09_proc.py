"""Helper for C09: run one algorithm concretely in a fresh interpreter and print a canonical dump."""
import json
import sys

from engine import harness as H
from checks import dp_common as D


def main():
    req = json.load(sys.stdin)
    case = H.Case(req["desc"])
    costs = H.cost_unjson(req["costs"])
    res = D.run_algo(req["algo"], case.build(costs), "all")
    dumps = sorted(json.dumps(o.to_dict(), sort_keys=True, default=str) for o in res)
    # only the minimum and the optimal SET are promised to be stable; which member 'any' picks is not
    print(json.dumps({"all": dumps, "min": str(res[0].cost()) if res else None}))


if __name__ == "__main__":
    main()
