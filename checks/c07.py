"""C07 - the LCA reconciliation is the unique optimum of the duplication-loss model.

Engine A + z3: dup, floss symbolic non-negative integers, spe symbolic with 0 <= spe <= dup
(contains the default 0); transfers forbidden (hgt = infinity.inf).  For every structural input:
reconcile_lca maps each internal node to the LCA (independent parent-chain oracle) and is valid;
z3 proves n_lca.c <= n_r.c for every transfer-free reconciliation r of the oracle, and, under
floss > 0, n_r.c > n_lca.c for every r != lca (uniqueness).  reconcile_thl with hgt = inf is
explored on the same symbols and must return exactly the LCA cost (and, floss > 0, the LCA mapping).
"""
import random
import sys

import z3
from infinity import inf

from engine import harness as H
from engine import runner as R
from engine.forksym import Inconclusive, Lin
from engine.oracles import recon as RC
from checks import dp_common as D

PROP = "C07"


def shared_tree_prelude(case, inp):
    """History for inputs flagged 'shared': another input built on the SAME tree objects (and the same ancestry structure) with the leaf
    assignment rotated is reconciled first - what a program looping over assignments on one pair of trees does."""
    import dataclasses
    if not case.desc.get("shared"):
        return
    leaves = sorted(inp.leaf_object_species, key=lambda n: n.name)
    targets = [inp.leaf_object_species[l] for l in leaves]
    sib = dataclasses.replace(inp, leaf_object_species=dict(zip(leaves, targets[1:] + targets[:1])))
    with H.quiet():
        try:
            D.reconcile_lca(sib)
            list(D.reconcile_thl(sib, D.POLICY["any"]))
        except Exception:
            pass


def concrete_failures(desc, costs):
    case = H.Case(desc)
    orc = D.Oracle(case)
    inp = case.build(costs)
    shared_tree_prelude(case, inp)
    fails = []
    out = D.run_algo("lca", inp, "any")[0]
    lm = RC.lca_mapping(case.O, case.S, case.leafmap)
    m = case.mapping_of(out)
    if m != lm:
        fails.append(("notlca", f"reconcile_lca mapping {case.mapping_names(m)} is not the LCA mapping {case.mapping_names(lm)}"))
        return fails
    cnt, why = orc.recount(out)
    if cnt is None:
        return [("invalid", why)]
    if cnt[2]:
        fails.append(("transfer", "the LCA reconciliation contains a transfer"))
    L = H.form_value(costs, cnt)
    for mm, c, ev, kept in orc.recs:
        if c[2]:
            continue
        v = H.form_value(costs, c)
        if v < L:
            fails.append(("notmin", f"{case.mapping_names(mm)} costs {v} < LCA cost {L}"))
            break
        if v == L and mm != lm and costs["floss"] > 0:
            fails.append(("notunique", f"{case.mapping_names(mm)} also costs {L}"))
            break
    for solver, pol in (("thl", "any"), ("thl", "all"), ("exh", "all")):
        if solver == "exh" and case.O.n > 7:
            continue
        res = D.run_algo(solver, inp, pol)
        for o in res:
            c2, _ = orc.recount(o)
            if c2 is None or H.form_value(costs, c2) != L:
                fails.append(("thl", f"{solver} with forbidden transfers returns cost {None if c2 is None else H.form_value(costs, c2)} != LCA cost {L}"))
            elif costs["floss"] > 0 and case.mapping_of(o) != lm:
                fails.append(("thl", f"{solver} with forbidden transfers returns a non-LCA optimum although floss > 0"))
        if not res:
            fails.append(("thl", f"{solver} returned nothing"))
    return fails


def replay(data):
    fails = concrete_failures(data["desc"], H.cost_unjson(data["costs"]))
    for k, t in fails:
        print(f"  reproduced: {k}: {t}")
    return bool(fails)


def worker(item):
    desc = item["desc"]
    case = H.Case(desc)
    orc = D.Oracle(case)
    out = dict(paths=0, obligations=0, discharged=0, violations=[], sample=None, solver_queries=0, solver_s=0.0, forks=0)

    def viol(kind, text, costs, model, ctx):
        cc = H.concrete_costs(costs, model if model is not None else ctx.model_values())
        cf = concrete_failures(desc, cc)
        out["violations"].append({"kind": kind, "text": f"{text}; input {desc}; costs {H.cost_json(cc)}; concrete: {cf[:2]}",
                                  "signature": {"kind": kind, "desc": desc}, "data": {"desc": desc, "costs": H.cost_json(cc)},
                                  "confirmed": any(k == kind for k, _ in cf)})

    def ob(ok):
        out["obligations"] += 1
        out["discharged"] += bool(ok)
        return ok

    try:
        ctx, costs = H.cost_ctx(["spe", "dup", "floss"], fixed={"hgt": inf, "sloss": 1}, coherent=False, max_paths=item["max_paths"], budget_s=item["budget_s"])
        ctx.solver.add(ctx.z(costs["spe"]) <= ctx.z(costs["dup"]))
        inp = case.build(costs)
        shared_tree_prelude(case, inp)
        lm = RC.lca_mapping(case.O, case.S, case.leafmap)
        dl = [r for r in orc.recs if r[1][2] == 0]
        for _ in ctx.paths():
            res = D.run_algo("lca", inp, "any")[0]
            m = case.mapping_of(res)
            if not ob(m == lm):
                viol("notlca", "reconcile_lca does not map to the LCA", costs, None, ctx)
                continue
            cnt, why = orc.recount(res)
            if not ob(cnt is not None):
                viol("invalid", why, costs, None, ctx)
                continue
            if not ob(cnt[2] == 0):
                viol("transfer", "LCA reconciliation contains a transfer", costs, None, ctx)
            L = H.form_z(ctx, costs, cnt)
            zero = ctx.const(0)
            cl = [ctx.z((L + zero) - (H.form_z(ctx, costs, r[1]) + zero)) <= 0 for r in dl]
            mdl = ctx.prove(z3.And(*cl)) if cl else None
            if not ob(mdl is None):
                viol("notmin", "a transfer-free reconciliation is cheaper than the LCA reconciliation", costs, mdl, ctx)
            cl = [ctx.z((H.form_z(ctx, costs, r[1]) + zero) - (L + zero)) > 0 for r in dl if r[0] != lm]
            if cl:
                mdl = ctx.prove(z3.Implies(ctx.z(costs["floss"]) > 0, z3.And(*cl)))
                if not ob(mdl is None):
                    viol("notunique", "another transfer-free reconciliation is as cheap as the LCA reconciliation with floss > 0", costs, mdl, ctx)
            # thl and the exhaustive solver with forbidden transfers, explored on the same symbols
            for solver, pol in (("thl", "any"), ("thl", "all"), ("exh", "all")):
                if solver == "exh" and case.O.n > 7:
                    continue
                tres = D.run_algo(solver, inp, pol)
                if not ob(bool(tres)):
                    viol("thl", f"{solver} returned nothing", costs, None, ctx)
                for o in tres:
                    c2, _ = orc.recount(o)
                    if not ob(c2 is not None and c2[2] == 0):
                        viol("thl", f"{solver} returned an invalid or transfer-bearing reconciliation with hgt = inf", costs, None, ctx)
                        continue
                    mdl = ctx.prove(ctx.z((H.form_z(ctx, costs, c2) + zero) - (L + zero)) == 0)
                    if not ob(mdl is None):
                        viol("thl", f"{solver}(hgt=inf) optimum differs from the LCA cost", costs, mdl, ctx)
                    if case.mapping_of(o) != lm:
                        mdl = ctx.prove(ctx.z(costs["floss"]) == 0)
                        if not ob(mdl is None):
                            viol("thl", f"{solver}(hgt=inf) returns a non-LCA optimum with floss > 0", costs, mdl, ctx)
            if out["sample"] is None:
                out["sample"] = {"input": desc, "lca_mapping": case.mapping_names(lm), "lca_counts(spe,dup,hgt,floss)": cnt,
                                 "transfer_free_reconciliations": len(dl)}
            if len(out["violations"]) > 3:
                break
        st = ctx.stats()
        out.update(paths=st["paths"], solver_queries=st["solver_queries"], solver_s=st["solver_s"], forks=st["forks"])
    except Inconclusive as e:
        out["status"] = "inconclusive"
        out["reason"] = str(e)
    out["nontrivial"] = len(case.O.internals) >= 2
    out["item"] = desc
    return out


def main(argv=None):
    tier, seed = R.tier_and_seed(argv)
    rng = random.Random(seed)
    q = tier == "quick"
    rep = R.Report(PROP, tier, seed)
    ex = list(D.plain_inputs(range(1, 5), range(1, 4 if q else 5)))
    smp = [D.random_plain_input(rng, rng.randint(4, 5), rng.randint(3, 5)) for _ in range(250 if q else 600)]
    # the same question on trees whose ancestors carry no name (the documented input format allows it; the LCA is about nodes, not names)
    ex += [dict(d, unnamed=True) for d in D.plain_inputs(range(2, 5), range(2, 4 if q else 5))]
    ex += [dict(d, shared=True) for d in D.plain_inputs(range(2, 4 if q else 5), range(2, 4))]
    smp += [dict(D.random_plain_input(rng, rng.randint(4, 5), rng.randint(4, 5)), unnamed=True) for _ in range(80 if q else 300)]
    big = [D.random_plain_input(rng, rng.randint(6, 8), rng.randint(3, 6)) for _ in range(0 if q else 40)]
    mk = lambda d: {"desc": d, "max_paths": 5000 if q else 30000, "budget_s": 200.0 if q else 900.0}
    res, sk = R.run_sharded(worker, [mk(d) for d in ex], 100 if q else 1500)
    rep.add_results("exhaustive-small", res, sk, exhaustive=True)
    res, sk = R.run_sharded(worker, [mk(d) for d in smp + big], 100 if q else 2000)
    rep.add_results("sampled-larger", res, sk, exhaustive=False)
    import superrec2.compute.reconciliation as m1, superrec2.utils.trees as m9
    rep.functions = R.safe_digest(lambda: R.source_digest(m1.reconcile_lca, m1.reconcile_thl, m1._compute_thl_table, m1._decode_thl_table,
                                    m9.LowestCommonAncestor.__call__))
    rep.bounds = {"exhaustive": f"every input with 1-4 object leaves x 1-{3 if q else 4} species leaves (plane shapes, every leaf assignment)",
                  "sampled": f"{len(smp)} seeded inputs with 4-5 object leaves, 2-5 species leaves" + ("" if q else "; 40 seeded inputs with 6-8 object leaves (oracle enumeration still exhaustive per input)"),
                  "naming": "every exhaustive input also with all ancestors of both trees unnamed (solutions read back by pre-order position) + seeded unnamed 4-5-leaf inputs",
                  "history": "every 2-3-leaf (thorough: 2-4-leaf) input also after a sibling input sharing the same tree objects (leaf assignment rotated) was reconciled",
                  "costs": "dup, floss: all non-negative integers; spe: all integers with 0 <= spe <= dup; hgt = infinity.inf (transfers forbidden)"}
    rep.assumptions = ["oracle engine/oracles/recon.py", "z3 linear integer arithmetic"]
    rep.stubs = H.STUBS
    rep.outside = ["spe > dup", "inputs beyond the stated sizes"]
    return rep.finish(
        explanation="reconcile_lca is compared with an independent LCA mapping and z3 proves, for all duplication/loss (and speciation <= duplication) costs, "
                    "that its count vector is no dearer than that of every transfer-free reconciliation of the oracle and strictly cheaper than every "
                    "other one when floss > 0; reconcile_thl with an infinite transfer cost is explored symbolically and must agree.",
        rule="one evaluation = one structural input; non-trivial = at least two internal object nodes")


if __name__ == "__main__":
    sys.exit(main())
