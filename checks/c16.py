"""C16 - a dynamic-programming entry holds the optimum and the tags of optimal candidates.

Engine A.  Candidate values are symbolic integers (any integers, no range); tags, policies,
batchings and table shapes are enumerated.
  * inductive step: arbitrary pre-state satisfying the representation invariant + one update,
    compared with the specification transition (covers histories of any length);
  * bounded histories (length <= n, every batching) on standalone entries and on cells of
    1-3 dimensional tables (list and dict dimensions), with untouched cells read back;
  * combine: optimum over all pairs of retained candidates with symbolic pair weights.
"""
import itertools
import random
import sys

import z3
from infinity import inf

from engine import runner as R
from engine.forksym import Ctx, Inconclusive, Lin

from superrec2.utils.dynamic_programming import (
    Candidate,
    DictDimension,
    Entry,
    ListDimension,
    MergePolicy,
    RetentionPolicy,
    Table,
)

PROP = "C16"
TAGS = (None, "a", "b")
MP = {"min": MergePolicy.MIN, "max": MergePolicy.MAX}
RP = {"none": RetentionPolicy.NONE, "any": RetentionPolicy.ANY, "all": RetentionPolicy.ALL}


def compositions(n):
    """All ways to split range(n) into consecutive non-empty batches."""
    if n == 0:
        yield []
        return
    for cuts in itertools.product([0, 1], repeat=n - 1):
        out, cur = [], [0]
        for i, c in enumerate(cuts, start=1):
            if c:
                out.append(cur)
                cur = [i]
            else:
                cur.append(i)
        out.append(cur)
        yield out


def isinf(v):
    return not isinstance(v, (Lin, int)) and (v == inf or v == -inf)


# ----------------------------------------------------------------------------- specification
def history_obligations(ctx, mp, rp, xs, tags, value, infos):
    """z3 claims that (value, infos) is the specified summary of candidates (xs, tags)."""
    claims = []
    if not xs:
        ok = isinf(value) and (value == (inf if mp == "min" else -inf)) and not infos
        return [("never-written entry reads as infinitely bad with no tags", z3.BoolVal(bool(ok)))]
    if isinf(value) or not isinstance(value, (Lin, int)):
        return [("value is one of the candidates", z3.BoolVal(False))]
    zv = ctx.z(value)
    zx = [ctx.z(x) for x in xs]
    claims.append(("value is optimal", z3.And(*[(zv <= x) if mp == "min" else (zv >= x) for x in zx])))
    claims.append(("value is one of the candidates", z3.Or(*[zv == x for x in zx])))
    infos = set(infos)
    if rp == "none":
        claims.append(("no tags under 'none'", z3.BoolVal(not infos)))
        return claims
    if not infos <= {t for t in tags if t}:
        claims.append(("tags are tags of offered candidates", z3.BoolVal(False)))
        return claims
    if rp == "any":
        claims.append(("at most one tag under 'any'", z3.BoolVal(len(infos) <= 1)))
    for a in ("a", "b"):
        opt_a = [zv == x for x, t in zip(zx, tags) if t == a]
        if a in infos:
            claims.append((f"tag {a} belongs to an optimal candidate", z3.Or(*opt_a) if opt_a else z3.BoolVal(False)))
        elif rp == "all" and opt_a:
            claims.append((f"tag {a} absent only if no optimal candidate carries it", z3.Not(z3.Or(*opt_a))))
    if rp == "any" and not infos:
        tagged = [zv == x for x, t in zip(zx, tags) if t]
        if tagged:
            claims.append(("'any' keeps a tag if some optimal candidate is tagged", z3.Not(z3.Or(*tagged))))
    return claims


def discharge(ctx, claims, out, describe):
    for name, cl in claims:
        out["obligations"] += 1
        m = ctx.prove(cl)
        if m is None:
            out["discharged"] += 1
        else:
            out["fails"].append((name, m, describe()))


# ----------------------------------------------------------------------------- runs
def _observe(c):
    """Every read-only observer of an entry / cell; returns False if they contradict each other."""
    infos = set(c.infos())
    one = c.info()
    it = [cand.info for cand in c]          # iteration yields one Candidate(value, tag) per retained tag
    ok = (set(it) == infos) and (len(it) == len(infos)) and (len(c) == len(infos)) and ((one is None) if not infos else (one in infos))
    c.value()
    c.is_infinite()
    return ok


def run_history(mp, rp, tags, batches, where, values, watched=False):
    """Execute a history with the given values (symbolic or concrete). Returns (value, infos, others_ok).
    watched: every observer is also read after each batch (reads must not disturb the entry, and must agree with one another)."""
    cands = [Candidate(v, t) for v, t in zip(values, tags)]
    others_ok = True
    if where == "entry":
        e = Entry(MP[mp], RP[rp])
        for b in batches:
            e.update(*[cands[i] for i in b])
            if watched:
                others_ok = _observe(e) and others_ok
        return e.value(), set(e.infos()), _observe(e) and others_ok
    dims, key, others = where
    t = Table(tuple(ListDimension(3) if d == "L" else DictDimension() for d in dims), MP[mp], RP[rp])

    def cell(k):
        c = t
        for x in k:
            c = c[x]
        return c

    for bi, b in enumerate(batches):
        if len(b) == 1 and bi % 2 == 0:
            # exercise __setitem__
            c = t
            for x in key[:-1]:
                c = c[x]
            c[key[-1]] = cands[b[0]]
        else:
            cell(key).update(*[cands[i] for i in b])
        if watched:
            others_ok = _observe(cell(key)) and others_ok
    others_ok = _observe(cell(key)) and others_ok
    for ok in others:
        c = cell(ok)
        v = c.value()
        if not (isinf(v) and v == (inf if mp == "min" else -inf)) or c.infos() or c.info() is not None or not c.is_infinite() or len(c) != 0:
            others_ok = False
    c = cell(key)
    return c.value(), set(c.infos()), others_ok


WHERES = [
    "entry",
    (("L",), (1,), [(0,), (2,)]),
    (("D",), ("k",), [("other",)]),
    (("L", "D"), (2, "k"), [(2, "z"), (0, "k")]),
    (("D", "D", "D"), ("x", "y", "z"), [("x", "y", "w"), ("y", "y", "z")]),
    (("D", "L", "L"), ("x", 0, 2), [("x", 2, 0), ("q", 0, 2)]),
]


def explore_history(item):
    mp, rp, tags, batches, wi = item["mp"], item["rp"], item["tags"], item["batches"], item["where"]
    where = WHERES[wi]
    n = len(tags)
    ctx = Ctx([(f"x{i}", "Int", None) for i in range(n)], max_paths=5000, budget_s=120)
    xs = [ctx.var(f"x{i}") for i in range(n)]
    out = dict(obligations=0, discharged=0, fails=[])
    for _ in ctx.paths():
        value, infos, others_ok = run_history(mp, rp, tags, batches, where, xs, item.get("watched", False))
        out["obligations"] += 1
        if others_ok:
            out["discharged"] += 1
        else:
            out["fails"].append(("untouched cells read as infinitely bad with no tags; info()/iteration/len agree with infos() at every read", ctx.model_values(), f"value={value} infos={infos}"))
        discharge(ctx, history_obligations(ctx, mp, rp, xs, tags, value, infos), out,
                  lambda: f"value={value} infos={sorted(infos)} pc={ctx.pc_text(6)}")
        if out["fails"]:
            break
    return ctx, out


# ----------------------------------------------------------------------------- aliasing between handles
def run_alias(mode, mp, rp, tags, split, values):
    """mode 'copy': candidates [0, split) go to e1, then e2 = Entry(e1.value(), e1.infos(), ...) receives the rest -> returns both summaries.
    mode 'proxies': two proxies of the same not-yet-written cell are kept and used alternately -> returns the cell's summary read afresh."""
    cands = [Candidate(v, t) for v, t in zip(values, tags)]
    if mode == "copy":
        e1 = Entry(MP[mp], RP[rp])
        for c in cands[:split]:
            e1.update(c)
        e2 = Entry(e1.value(), e1.infos(), MP[mp], RP[rp])
        for c in cands[split:]:
            e2.update(c)
        return (e1.value(), set(e1.infos())), (e2.value(), set(e2.infos()))
    t = Table((DictDimension(), ListDimension(2)), MP[mp], RP[rp])
    p1, p2 = t["k"][1], t["k"][1]
    for i, c in enumerate(cands):
        (p1 if i % 2 == 0 else p2).update(c)
    cell = t["k"][1]
    return (cell.value(), set(cell.infos())), (p1.value(), set(p1.infos()))


def explore_alias(item):
    mode, mp, rp, tags, split = item["mode"], item["mp"], item["rp"], item["tags"], item["split"]
    n = len(tags)
    ctx = Ctx([(f"x{i}", "Int", None) for i in range(n)], max_paths=5000, budget_s=120)
    xs = [ctx.var(f"x{i}") for i in range(n)]
    out = dict(obligations=0, discharged=0, fails=[])
    for _ in ctx.paths():
        (v1, i1), (v2, i2) = run_alias(mode, mp, rp, tags, split, xs)
        if mode == "copy":
            discharge(ctx, history_obligations(ctx, mp, rp, xs[:split], tags[:split], v1, i1), out, lambda: f"source entry after the copy was updated: value={v1} infos={sorted(i1)}")
            discharge(ctx, history_obligations(ctx, mp, rp, xs, tags, v2, i2), out, lambda: f"copied entry: value={v2} infos={sorted(i2)}")
        else:
            discharge(ctx, history_obligations(ctx, mp, rp, xs, tags, v1, i1), out, lambda: f"cell read afresh: value={v1} infos={sorted(i1)}")
            discharge(ctx, history_obligations(ctx, mp, rp, xs, tags, v2, i2), out, lambda: f"cell read through the first kept proxy: value={v2} infos={sorted(i2)}")
        if out["fails"]:
            break
    return ctx, out


def concrete_alias_fails(mode, mp, rp, tags, split, vals):
    (v1, i1), (v2, i2) = run_alias(mode, mp, rp, tags, split, vals)

    def chk(values, tgs, value, infos, what):
        if not values:
            return [] if (isinf(value) and not infos) else [f"{what}: never written but reads {value} {infos}"]
        opt = min(values) if mp == "min" else max(values)
        if isinf(value) or value != opt:
            return [f"{what}: value {value} != optimum {opt}"]
        opt_tags = {t for v, t in zip(values, tgs) if v == opt and t}
        if rp == "none" and infos:
            return [f"{what}: tags under none"]
        if rp == "all" and infos != opt_tags:
            return [f"{what}: tags {sorted(infos)} != optimal tags {sorted(opt_tags)}"]
        if rp == "any" and not ((not opt_tags and not infos) or (len(infos) == 1 and infos <= opt_tags)):
            return [f"{what}: tags {sorted(infos)} not exactly one of {sorted(opt_tags)}"]
        return []

    if mode == "copy":
        return chk(vals[:split], tags[:split], v1, i1, "source entry") + chk(vals, tags, v2, i2, "copied entry")
    return chk(vals, tags, v1, i1, "cell read afresh") + chk(vals, tags, v2, i2, "cell read through a kept proxy")


def alias_items():
    for mode in ("copy", "proxies"):
        for mp in MP:
            for rp in RP:
                for n in (2, 3):
                    for tags in itertools.product(TAGS, repeat=n):
                        for split in ((1, 2) if mode == "copy" else (0,)):
                            if split < n:
                                yield {"kind": "alias", "mode": mode, "mp": mp, "rp": rp, "tags": list(tags), "split": split}


def concrete_history_fails(mp, rp, tags, batches, wi, vals, watched=False):
    value, infos, others_ok = run_history(mp, rp, tags, batches, WHERES[wi], vals, watched)
    fails = []
    if not others_ok:
        fails.append("untouched cells changed, or info()/iteration/len contradict infos()")
    if not vals:
        if not (isinf(value) and not infos):
            fails.append("never-written entry not (inf, no tags)")
        return fails
    opt = min(vals) if mp == "min" else max(vals)
    if isinf(value) or value != opt:
        fails.append(f"value {value} != optimum {opt}")
        return fails
    opt_tags = {t for v, t in zip(vals, tags) if v == opt and t}
    if rp == "none" and infos:
        fails.append(f"tags {infos} under 'none'")
    if rp == "all" and infos != opt_tags:
        fails.append(f"tags {sorted(infos)} != optimal tags {sorted(opt_tags)}")
    if rp == "any" and not ((not opt_tags and not infos) or (len(infos) == 1 and infos <= opt_tags)):
        fails.append(f"tags {sorted(infos)} not exactly one of optimal tags {sorted(opt_tags)}")
    return fails


# ----------------------------------------------------------------------------- inductive step
def step_items():
    for mp in MP:
        for rp in RP:
            for vkind in ("int", "init"):
                for S in ([], ["a"], ["b"], ["a", "b"]):
                    if rp == "none" and S:
                        continue
                    if rp == "any" and len(S) > 1:
                        continue
                    if vkind == "init" and S:
                        continue
                    for tag in TAGS:
                        yield {"kind": "step", "mp": mp, "rp": rp, "vkind": vkind, "S": S, "tag": tag}


def run_step(mp, rp, v, S, x, tag):
    e = Entry(v, set(S), MP[mp], RP[rp])
    e.update(Candidate(x, tag))
    return e.value(), set(e.infos())


def spec_step(mp, rp, rel, v, S, x, tag):
    S = set(S)
    if rel == "better":
        return x, ({tag} if tag and rp != "none" else set())
    if rel == "equal":
        if rp == "all":
            return v, S | ({tag} if tag else set())
        if rp == "any":
            return v, (S if S else ({tag} if tag else set()))
        return v, set()
    return v, S


def explore_step(item):
    mp, rp, vkind, S, tag = item["mp"], item["rp"], item["vkind"], item["S"], item["tag"]
    ctx = Ctx([("v", "Int", None), ("x", "Int", None)], max_paths=100, budget_s=60)
    v = ctx.var("v") if vkind == "int" else (inf if mp == "min" else -inf)
    x = ctx.var("x")
    out = dict(obligations=0, discharged=0, fails=[])
    for _ in ctx.paths():
        val, infos = run_step(mp, rp, v, S, x, tag)
        # relation of x to v on this path, decided against the PC (may fork further: still a partition)
        if vkind == "init":
            rel = "better"
        else:
            better = (x < v) if mp == "min" else (x > v)
            rel = "better" if better else ("equal" if x == v else "worse")
        ev, eS = spec_step(mp, rp, rel, v, S, x, tag)
        out["obligations"] += 2
        okv = (not isinf(val)) and ctx.prove(ctx.z(val) == ctx.z(ev)) is None if not isinf(ev) else (isinf(val) and val == ev)
        if okv:
            out["discharged"] += 1
        else:
            out["fails"].append(("post-state value", ctx.model_values(), f"{rel}: value {val}, specified {ev}"))
        if infos == eS:
            out["discharged"] += 1
        else:
            out["fails"].append(("post-state tags", ctx.model_values(), f"{rel}: tags {sorted(infos)}, specified {sorted(eS)}"))
    return ctx, out


def concrete_step_fails(mp, rp, vkind, S, tag, vals):
    v = vals["v"] if vkind == "int" else (inf if mp == "min" else -inf)
    x = vals["x"]
    val, infos = run_step(mp, rp, v, S, x, tag)
    if vkind == "init":
        rel = "better"
    else:
        rel = "better" if ((x < v) if mp == "min" else (x > v)) else ("equal" if x == v else "worse")
    ev, eS = spec_step(mp, rp, rel, v, S, x, tag)
    fails = []
    if not (val == ev):
        fails.append(f"value {val} != {ev}")
    if infos != eS:
        fails.append(f"{rel} candidate: tags {sorted(infos)} != specified {sorted(eS)}")
    return fails


# ----------------------------------------------------------------------------- combine
def explore_combine(item):
    mp, rp, T1, T2 = item["mp"], item["rp"], item["T1"], item["T2"]
    pairs = list(itertools.product(T1, T2))
    names = ["v1", "v2"] + [f"w_{a}{b}" for a, b in pairs]
    ctx = Ctx([(n, "Int", None) for n in names], max_paths=3000, budget_s=120)
    v1, v2 = ctx.var("v1"), ctx.var("v2")
    w = {p: ctx.var(f"w_{p[0]}{p[1]}") for p in pairs}
    out = dict(obligations=0, discharged=0, fails=[])
    for _ in ctx.paths():
        val, infos = run_combine(mp, rp, T1, T2, v1, v2, w, item["proxy"])
        xs = [v1 + v2 + w[p] for p in pairs]
        tags = [p for p in pairs]
        claims = []
        if not pairs:
            ok = isinf(val) and val == (inf if mp == "min" else -inf) and not infos
            claims.append(("combination with an entry without tags is empty", z3.BoolVal(bool(ok))))
        else:
            if isinf(val):
                claims.append(("combined value finite", z3.BoolVal(False)))
            else:
                zv = ctx.z(val)
                zx = [ctx.z(x) for x in xs]
                claims.append(("combined value optimal over pairs", z3.And(*[(zv <= x) if mp == "min" else (zv >= x) for x in zx])))
                claims.append(("combined value is one of the pairs", z3.Or(*[zv == x for x in zx])))
                if rp == "none":
                    claims.append(("no tags under none", z3.BoolVal(not infos)))
                else:
                    if rp == "any":
                        claims.append(("exactly one tag under any", z3.BoolVal(len(infos) == 1)))
                    for p, x in zip(pairs, zx):
                        if p in infos:
                            claims.append((f"pair {p} retained => optimal", zv == x))
                        elif rp == "all":
                            claims.append((f"pair {p} dropped => not optimal", zv != x))
                    claims.append(("tags are pairs", z3.BoolVal(set(infos) <= set(pairs))))
        discharge(ctx, claims, out, lambda: f"value={val} infos={sorted(infos)}")
        if out["fails"]:
            break
    return ctx, out


def run_combine(mp, rp, T1, T2, v1, v2, w, proxy):
    if proxy:
        t = Table((DictDimension(),), MP[mp], RP[rp])
        for a in T1:
            t["k"].update(Candidate(v1, a))
        if proxy == "written":
            t["k"].update(Candidate(v1))       # the cell holds a finite value (possibly without any tag): still a combination over retained tags only
        e1 = t["k"]
    else:
        e1 = Entry(v1, set(T1), MP[mp], RP[rp])
    e2 = Entry(v2, set(T2), MP[mp], RP[rp])
    res = e1.combine(e2, lambda l, r: Candidate(l.value + r.value + w[(l.info, r.info)], (l.info, r.info)))
    return res.value(), set(res.infos())


def concrete_combine_fails(mp, rp, T1, T2, proxy, vals):
    pairs = list(itertools.product(T1, T2))
    w = {p: vals[f"w_{p[0]}{p[1]}"] for p in pairs}
    val, infos = run_combine(mp, rp, T1, T2, vals["v1"], vals["v2"], w, proxy)
    if not pairs:
        return [] if (isinf(val) and not infos) else ["non-empty combination"]
    xs = {p: vals["v1"] + vals["v2"] + w[p] for p in pairs}
    opt = min(xs.values()) if mp == "min" else max(xs.values())
    fails = []
    if isinf(val) or val != opt:
        return [f"value {val} != optimum over pairs {opt}"]
    optp = {p for p in pairs if xs[p] == opt}
    if rp == "none" and infos:
        fails.append("tags under none")
    if rp == "all" and infos != optp:
        fails.append(f"tags {sorted(infos)} != optimal pairs {sorted(optp)}")
    if rp == "any" and not (len(infos) == 1 and infos <= optp):
        fails.append(f"tags {sorted(infos)} not one optimal pair of {sorted(optp)}")
    return fails


# ----------------------------------------------------------------------------- worker / main
def _int(v):
    return int(v)


def worker(item):
    kind = item["kind"]
    try:
        if kind == "step":
            ctx, out = explore_step(item)
        elif kind == "history":
            ctx, out = explore_history(item)
        elif kind == "alias":
            ctx, out = explore_alias(item)
        else:
            ctx, out = explore_combine(item)
    except Inconclusive as e:
        return {"status": "inconclusive", "reason": str(e), "item": item}
    st = ctx.stats()
    res = dict(paths=st["paths"], obligations=out["obligations"], discharged=out["discharged"],
               solver_queries=st["solver_queries"], solver_s=st["solver_s"], violations=[],
               nontrivial=st["forks"] > 0, item=item)
    for name, model, text in out["fails"][:2]:
        vals = {k: _int(v) for k, v in model.items()}
        if kind == "step":
            cf = concrete_step_fails(item["mp"], item["rp"], item["vkind"], item["S"], item["tag"], vals)
            sig = {"kind": "step", "mp": item["mp"], "rp": item["rp"], "tag_given": item["tag"] is not None,
                   "pre_tagged": bool(item["S"]), "clause": name}
        elif kind == "alias":
            vs = [vals[f"x{i}"] for i in range(len(item["tags"]))]
            cf = concrete_alias_fails(item["mode"], item["mp"], item["rp"], item["tags"], item["split"], vs)
            sig = {"kind": "alias", "item": item, "clause": name}
        elif kind == "history":
            vs = [vals[f"x{i}"] for i in range(len(item["tags"]))]
            cf = concrete_history_fails(item["mp"], item["rp"], item["tags"], item["batches"], item["where"], vs, item.get("watched", False))
            sig = {"kind": "history", "item": item, "clause": name}
        else:
            cf = concrete_combine_fails(item["mp"], item["rp"], item["T1"], item["T2"], item["proxy"], vals)
            sig = {"kind": "combine", "item": item, "clause": name}
        res["violations"].append({
            "kind": kind, "text": f"{name}: {text}; case {item}; values {vals}; concrete re-run: {cf}",
            "signature": sig, "data": {"item": item, "values": vals}, "confirmed": bool(cf)})
    if kind == "history" and item["where"] == 3 and len(item["tags"]) >= 2:
        res["sample"] = {"history": list(zip([f"x{i}" for i in range(len(item["tags"]))], item["tags"])),
                         "batches": item["batches"], "policies": [item["mp"], item["rp"]], "cell": str(WHERES[3][:2]),
                         "paths": st["paths"]}
    return res


def replay(data):
    item, vals = data["item"], data["values"]
    if item["kind"] == "step":
        cf = concrete_step_fails(item["mp"], item["rp"], item["vkind"], item["S"], item["tag"], vals)
    elif item["kind"] == "alias":
        cf = concrete_alias_fails(item["mode"], item["mp"], item["rp"], item["tags"], item["split"], [vals[f"x{i}"] for i in range(len(item["tags"]))])
    elif item["kind"] == "history":
        cf = concrete_history_fails(item["mp"], item["rp"], item["tags"], [list(b) for b in item["batches"]], item["where"],
                                    [vals[f"x{i}"] for i in range(len(item["tags"]))], item.get("watched", False))
    else:
        cf = concrete_combine_fails(item["mp"], item["rp"], item["T1"], item["T2"], item["proxy"], vals)
    for t in cf:
        print("  reproduced:", t)
    return bool(cf)


def history_items(tier, seed):
    rng = random.Random(seed)
    full_n = 3 if tier == "quick" else 4
    top_n = 4 if tier == "quick" else 5
    n_top = 3000 if tier == "quick" else 12000
    items = []
    for mp in MP:
        for rp in RP:
            for n in range(0, full_n + 1):
                for tags in itertools.product(TAGS, repeat=n):
                    for batches in compositions(n):
                        for wi in range(len(WHERES)):
                            if n == full_n and wi not in (0, 3) and tier == "quick":
                                continue
                            items.append({"kind": "history", "mp": mp, "rp": rp, "tags": list(tags), "batches": batches, "where": wi,
                                          "watched": len(batches) >= 2 and (len(items) % 2 == 0)})
    allc = list(compositions(top_n))
    for _ in range(n_top):
        items.append({"kind": "history", "mp": rng.choice(list(MP)), "rp": rng.choice(list(RP)),
                      "tags": [rng.choice(TAGS) for _ in range(top_n)], "batches": rng.choice(allc),
                      "where": rng.randrange(len(WHERES)), "watched": rng.random() < 0.5})
    return items, full_n, top_n, n_top


def combine_items():
    subsets = [[], ["a"], ["b"], ["a", "b"]]
    for mp in MP:
        for rp in RP:
            for T1 in subsets:
                for T2 in subsets:
                    if rp == "none" and (T1 or T2):
                        continue
                    if rp == "any" and (len(T1) > 1 or len(T2) > 1):
                        continue
                    for proxy in (False, True, "written"):
                        yield {"kind": "combine", "mp": mp, "rp": rp, "T1": T1, "T2": T2, "proxy": proxy}


def main(argv=None):
    tier, seed = R.tier_and_seed(argv)
    rep = R.Report(PROP, tier, seed)
    budget = 120 if tier == "quick" else 1500
    steps = list(step_items())
    res, sk = R.run_sharded(worker, steps, budget)
    rep.add_results("inductive-step", res, sk, exhaustive=True)
    hist, full_n, top_n, n_top = history_items(tier, seed)
    res, sk = R.run_sharded(worker, hist, budget)
    rep.add_results("bounded-histories", res, sk, exhaustive=False)
    res, sk = R.run_sharded(worker, list(alias_items()), budget)
    rep.add_results("aliasing: an entry built from another entry's value()/infos(); two kept proxies of one unwritten cell", res, sk, exhaustive=True)
    comb = list(combine_items())
    res, sk = R.run_sharded(worker, comb, budget)
    rep.add_results("combine", res, sk, exhaustive=True)
    import superrec2.utils.dynamic_programming as m3
    rep.functions = R.safe_digest(lambda: R.source_digest(m3.Entry.__init__, m3.Entry.update, m3.Entry.combine, m3.Entry.infos, m3.Entry.value,
                                    m3.EntryProxy.update, m3.EntryProxy.value, m3.EntryProxy.infos, m3.EntryProxy.combine,
                                    m3.EntryProxy._get_real, m3.TableProxy.__getitem__, m3.TableProxy.__setitem__,
                                    m3.Table.entry, m3._generate_table))
    rep.bounds = {
        "values": "every candidate value is an unconstrained symbolic integer (one z3 Int each)",
        "inductive step": "every policy pair (2x3), pre-state = symbolic or initial value x tag subset allowed by the policy, one update with tag in {none,a,b}",
        "histories": f"all histories of length <= {full_n} (tags {{none,a,b}}, every batching, 6 placements: standalone entry and cells of "
                     f"1-3 dimensional list/dict tables{' (length ' + str(full_n) + ' on 2 placements)' if tier == 'quick' else ''}); {n_top} seeded histories of length {top_n}",
        "combine": "tag subsets of {a,b} per side allowed by the policy, symbolic values and symbolic pair weights, Entry and EntryProxy receivers "
                   "(never-written cells, tagged cells, and cells written with an untagged candidate)",
        "aliasing": "histories of length 2-3 split between an entry and a copy built from its value()/infos(), or issued alternately through two kept proxies of one cell",
        "reads": "half of the multi-batch histories are 'watched': value/infos/info/iteration/len/is_infinite are read after every batch and must agree",
    }
    rep.assumptions = ["tags are truthy objects (the code treats falsy tags as absent)", "candidate values are finite (property quantifier); "
                       "the initial +-infinity appears only as the default value", "z3 linear integer arithmetic"]
    rep.outside = ["infinite candidate values offered to an entry", "histories longer than the bound except through the inductive step",
                   "tables with more than 3 dimensions"]
    return rep.finish(
        explanation="Bounded symbolic verification of Entry/Table: updates and combinations run on symbolic integer values; every feasible "
                    "ordering of the values is explored and z3 proves on each path that value and tags are those the specification assigns "
                    "(optimal value; tags of exactly the optimal candidates / one of them / none). The single-update inductive step from an "
                    "arbitrary invariant-satisfying pre-state extends the claim to histories of any length.",
        rule="one evaluation = one (policy pair, tag pattern, batching, placement) history, one inductive-step case or one combine case; "
             "non-trivial = its exploration forked on a value comparison")


if __name__ == "__main__":
    sys.exit(main())
