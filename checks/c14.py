"""C14 - layouts are geometrically coherent and orientation-symmetric.

Engine A over the reals: every node's (width, height) and the numeric drawing parameters are
symbolic positive reals; the real layout.compute (and tikz.render, which dereferences every anchor)
run on them, every feasible ordering of the min/max comparisons is explored, and on each path z3
proves (linear real arithmetic): sibling species boxes have disjoint interiors and lie inside their
parent's box; species trunks are pairwise interior-disjoint; every referenced anchor exists; the
horizontal layout computed with (h, w) equals the vertical one computed with (w, h) under x <-> y,
coordinate by coordinate; a second run gives identical coordinates.
"""
import itertools
import random
import sys
from fractions import Fraction

import z3

from engine import harness as H
from engine import runner as R
from engine.forksym import Inconclusive, Lin
from engine.oracles import labels as LB
from checks import dp_common as D
from checks import render_common as RC

from superrec2.model.reconciliation import EdgeEvent, NodeEvent
from superrec2.render.model import Orientation

PROP = "C14"
NUM = (int, float, Fraction, Lin)


class Clauses:
    """Collects named linear claims; concrete mode evaluates them with exact rationals."""

    def __init__(self, ctx=None):
        self.ctx = ctx
        self.items = []        # (name, z3 bool | python bool)

    def _cmp(self, a, b, op):
        d = a - b
        if isinstance(d, Lin):
            t = d.ctx.trivial(d.d, d.k, op)
            if t is not None:
                return t
            z = self.ctx.z(d)
            return z <= 0 if op == "le" else z == 0
        return (d <= 0) if op == "le" else (d == 0)

    def le(self, name, a, b):
        self.items.append((name, self._cmp(a, b, "le")))

    def eq(self, name, a, b):
        self.items.append((name, self._cmp(a, b, "eq")))

    def any_le(self, name, pairs):
        cs = [self._cmp(a, b, "le") for a, b in pairs]
        if any(c is True for c in cs):
            self.items.append((name, True))
        else:
            cs = [c for c in cs if c is not False]
            self.items.append((name, z3.Or(*cs) if cs else False))

    def fact(self, name, ok):
        self.items.append((name, bool(ok)))

    def failed_concrete(self):
        return [n for n, c in self.items if c is False]

    def z3_claims(self):
        return [(n, c) for n, c in self.items if not isinstance(c, bool)]


def finite(v):
    return isinstance(v, NUM) and not (isinstance(v, float) and (v != v or v in (float("inf"), float("-inf"))))


def disjoint(cl, name, A, B):
    cl.any_le(name, [(A.x + A.w, B.x), (B.x + B.w, A.x), (A.y + A.h, B.y), (B.y + B.h, A.y)])


def inside(cl, name, A, P):
    cl.le(name + " (left)", P.x, A.x)
    cl.le(name + " (top)", P.y, A.y)
    cl.le(name + " (right)", A.x + A.w, P.x + P.w)
    cl.le(name + " (bottom)", A.y + A.h, P.y + P.h)


def geometry(cl, lay, tag):
    species = list(lay)
    for s in species:
        L = lay[s]
        vals = list(L.rect) + list(L.trunk) + [c for p in L.anchors.values() for c in p]
        for b in L.branches.values():
            vals += list(b.rect) + list(b.anchor_parent) + list(b.anchor_left) + list(b.anchor_right) + list(b.anchor_child)
        cl.fact(f"{tag}: coordinates of {s.name} are finite numbers", all(finite(v) for v in vals))
        if not s.is_leaf():
            a, b = s.children
            disjoint(cl, f"{tag}: boxes of siblings {a.name},{b.name} overlap", lay[a].rect, lay[b].rect)
            inside(cl, f"{tag}: box of {a.name} not inside box of {s.name}", lay[a].rect, L.rect)
            inside(cl, f"{tag}: box of {b.name} not inside box of {s.name}", lay[b].rect, L.rect)
        # referenced anchors exist
        for g, br in L.branches.items():
            if br.kind == NodeEvent.SPECIATION:
                a, b = s.children
                cl.fact(f"{tag}: speciation in {s.name} refers to missing child anchors", br.left in lay[a].anchors and br.right in lay[b].anchors)
            elif br.kind == EdgeEvent.FULL_LOSS:
                a, b = s.children
                ok = (br.left in lay[a].anchors) if br.right is None else (br.right in lay[b].anchors)
                cl.fact(f"{tag}: loss in {s.name} refers to a missing anchor", ok)
            elif br.kind == NodeEvent.DUPLICATION:
                cl.fact(f"{tag}: duplication in {s.name} refers to missing branches", br.left in L.branches and br.right in L.branches)
            elif br.kind == NodeEvent.HORIZONTAL_TRANSFER:
                cl.fact(f"{tag}: transfer in {s.name} refers to a missing branch/anchor",
                        br.left in L.branches and any(br.right in lay[t].anchors for t in species))
    for s, t in itertools.combinations(species, 2):
        disjoint(cl, f"{tag}: trunks of {s.name},{t.name} overlap", lay[s].trunk, lay[t].trunk)


def flat(lay):
    """Layout -> list of (label, x-like, y-like) coordinate pairs in a deterministic order (by names / insertion order)."""
    out = []
    for s in sorted(lay, key=lambda n: n.name):
        L = lay[s]
        out.append((f"{s.name}.rect.pos", L.rect.x, L.rect.y))
        out.append((f"{s.name}.rect.size", L.rect.w, L.rect.h))
        out.append((f"{s.name}.trunk.pos", L.trunk.x, L.trunk.y))
        out.append((f"{s.name}.trunk.size", L.trunk.w, L.trunk.h))
        for i, (g, p) in enumerate(L.anchors.items()):
            out.append((f"{s.name}.anchor[{i}]", p.x, p.y))
        for i, (g, b) in enumerate(L.branches.items()):
            out.append((f"{s.name}.branch[{i}].pos", b.rect.x, b.rect.y))
            out.append((f"{s.name}.branch[{i}].size", b.rect.w, b.rect.h))
            for nm in ("anchor_parent", "anchor_child"):
                p = getattr(b, nm)
                out.append((f"{s.name}.branch[{i}].{nm}", p.x, p.y))
        out.append((f"{s.name}.fork_thickness", L.fork_thickness, L.fork_thickness))
    return out


def mirror(cl, layV, layH):
    fv, fh = flat(layV), flat(layH)
    cl.fact("mirror: same structure in both orientations", [a[0] for a in fv] == [a[0] for a in fh])
    for (n, vx, vy), (_, hx, hy) in zip(fv, fh):
        if n.endswith("fork_thickness"):
            cl.eq(f"mirror: {n}", vx, hx)
        else:
            cl.eq(f"mirror: {n} (x of horizontal = y of vertical)", hx, vy)
            cl.eq(f"mirror: {n} (y of horizontal = x of vertical)", hy, vx)
    # side anchors swap roles: left/right of vertical = top/bottom of horizontal
    for s in sorted(layV, key=lambda n: n.name):
        sh = next(t for t in layH if t.name == s.name)
        for i, (bv, bh) in enumerate(zip(layV[s].branches.values(), layH[sh].branches.values())):
            cl.eq(f"mirror: {s.name}.branch[{i}].anchor_left", bh.anchor_left.x, bv.anchor_left.y)
            cl.eq(f"mirror: {s.name}.branch[{i}].anchor_left'", bh.anchor_left.y, bv.anchor_left.x)
            cl.eq(f"mirror: {s.name}.branch[{i}].anchor_right", bh.anchor_right.x, bv.anchor_right.y)
            cl.eq(f"mirror: {s.name}.branch[{i}].anchor_right'", bh.anchor_right.y, bv.anchor_right.x)


def same(cl, lay1, lay2, what="determinism"):
    f1, f2 = flat(lay1), flat(lay2)
    cl.fact(f"{what}: same structure", [a[0] for a in f1] == [a[0] for a in f2])
    for (n, x1, y1), (_, x2, y2) in zip(f1, f2):
        cl.eq(f"{what}: {n}.x", x1, x2)
        cl.eq(f"{what}: {n}.y", y1, y2)


def all_clauses(ctx, case, m, syn, ordered, sizes, per_kind, params, prior=None):
    cl = Clauses(ctx)
    # ONE reconciliation object for the three computations (vertical, horizontal, vertical again): "computing the layout twice gives
    # identical results" is about the same object, and so is the mirror relation a user observes
    rec, _, _ = RC.build_rec(case, m, syn, ordered)
    RC.draw_prior(case, rec.input, prior)

    def lay(orient, swap, split=False):
        return RC.run_layout(rec, orient, sizes, per_kind, params, swap=swap, render=True, split=split)[0]

    layV = lay(Orientation.VERTICAL, False)
    layH = lay(Orientation.HORIZONTAL, True)
    layV2 = lay(Orientation.VERTICAL, False)
    geometry(cl, layV, "vertical")
    geometry(cl, layH, "horizontal")
    mirror(cl, layV, layH)
    same(cl, layV, layV2)
    # node sizes reach the layout as (width, height, depth) boxes: only the overall size may matter, in both orientations
    same(cl, layH, lay(Orientation.HORIZONTAL, True, split=True), "depth")
    same(cl, layV, lay(Orientation.VERTICAL, False, split=True), "depth")
    return cl


def count_branches(case, m):
    cnt, ev, kept = D.RC.evaluate(case.O, case.S, m)
    return case.O.n + cnt[3]


def concrete_failures(desc, m, syn, ordered, per_kind, sym_params, values, prior=None):
    case = H.Case(desc)
    m = {int(k): v for k, v in m.items()}
    syn2 = {int(k): tuple(v) for k, v in syn.items()} if syn is not None else None
    nb = count_branches(case, m)
    out = {}
    for label, conv in (("exact rationals", lambda x: x), ("floats", float)):
        sizes, params = RC.concrete_sizes(values, nb, per_kind, sym_params)
        sizes = [(conv(w), conv(h)) for w, h in sizes]
        params = {k: conv(v) for k, v in params.items()}
        try:
            cl = all_clauses(None, case, m, syn2, ordered, sizes, per_kind, params, prior)
            out[label] = cl.failed_concrete()
        except Exception as e:
            out[label] = [f"exception {type(e).__name__}: {e}"]
    return out


def replay(data):
    r = concrete_failures(data["desc"], data["mapping"], data.get("syn"), data.get("ordered"), data["per_kind"], data["sym_params"], RC.unfrac(data["values"]),
                          data.get("after"))
    for k, v in r.items():
        print(f"  {k}: {v[:4]}")
    return bool(r["exact rationals"])


def worker(item):
    desc = item["desc"]
    case = H.Case(desc)
    m = {int(k): v for k, v in item["mapping"].items()}
    syn = {int(k): tuple(v) for k, v in item["syn"].items()} if item.get("syn") else None
    ordered = item.get("ordered")
    per_kind, sym_params = item["per_kind"], item["sym_params"]
    out = dict(paths=0, obligations=0, discharged=0, violations=[], sample=None, solver_queries=0, solver_s=0.0, forks=0)
    try:
        nb = count_branches(case, m)
        ctx, sizes, params = RC.make_ctx(nb, per_kind, sym_params, item["max_paths"], item["budget_s"])
        for _ in ctx.paths():
            try:
                cl = all_clauses(ctx, case, m, syn, ordered, sizes, per_kind, params, item.get("after"))
            except Exception as e:
                vals = ctx.model_values()
                cf = concrete_failures(desc, item["mapping"], item.get("syn"), ordered, per_kind, sym_params, vals, item.get("after"))
                out["obligations"] += 1
                out["violations"].append(_viol(item, f"exception {type(e).__name__}: {e}", vals, cf))
                break
            bad = cl.failed_concrete()
            claims = cl.z3_claims()
            out["obligations"] += len(cl.items)
            model = None
            if not bad and claims:
                model = ctx.prove(z3.And(*[c for _, c in claims]))
            if bad or model is not None:
                vals = model if model is not None else ctx.model_values()
                cf = concrete_failures(desc, item["mapping"], item.get("syn"), ordered, per_kind, sym_params, vals, item.get("after"))
                which = bad or cf["exact rationals"]
                out["violations"].append(_viol(item, f"{which[:3]}", vals, cf))
                break
            out["discharged"] += len(cl.items)
            if out["sample"] is None and ctx.npaths >= 2:
                out["sample"] = {"input": desc, "mapping": case.mapping_names(m), "symbols": ctx.names, "path_condition": ctx.pc_text(5),
                                 "clauses_on_this_path": len(cl.items)}
        st = ctx.stats()
        out.update(paths=st["paths"], solver_queries=st["solver_queries"], solver_s=st["solver_s"], forks=st["forks"])
    except Inconclusive as e:
        out["status"] = "inconclusive"
        out["reason"] = str(e)
    out["nontrivial"] = out["forks"] > 0
    out["item"] = {"desc": desc, "mapping": item["mapping"]}
    out["section"] = item["section"]
    return out


def _viol(item, text, vals, cf):
    return {"kind": "geometry", "text": f"{text}; input {item['desc']}; mapping {item['mapping']}" + (f" (drawn after reconciliation {item['after']} of the same input object)" if item.get("after") else "") + f"; sizes/params {RC.frac_str(vals)}; concrete: "
                                        f"{ {k: v[:2] for k, v in cf.items()} }",
            "signature": {"kind": "geometry", "desc": item["desc"], "mapping": item["mapping"], "clause": text[:80]},
            "data": {"desc": item["desc"], "mapping": item["mapping"], "syn": item.get("syn"), "ordered": item.get("ordered"),
                     "per_kind": item["per_kind"], "sym_params": item["sym_params"], "values": RC.frac_str(vals), "after": item.get("after")},
            "confirmed": bool(cf["exact rationals"])}


def rec_items(rng, desc, nrec, section, per_kind, sym_params, max_paths, budget_s, labelled_p=0.4):
    case = H.Case(desc)
    orc = D.Oracle(case)
    recs = orc.recs if len(orc.recs) <= nrec else rng.sample(orc.recs, nrec)
    items = []
    for m, cnt, ev, kept in recs:
        it = {"desc": desc, "mapping": {str(k): v for k, v in m.items()}, "per_kind": per_kind, "sym_params": sym_params,
              "section": section, "max_paths": max_paths, "budget_s": budget_s}
        if len(orc.recs) > 1 and rng.random() < 0.5:
            # history: another valid reconciliation of the SAME input object is drawn first
            other = rng.choice([r for r in orc.recs if r[0] != m])
            it["after"] = {str(k): v for k, v in other[0].items()}
        if case.leafsyn is not None and rng.random() < labelled_p:
            labs = [s for s, _ in LB.unordered_labellings(case.O, case.leafsyn)]
            syn = rng.choice(labs)
            it["syn"] = {str(k): sorted(v) for k, v in syn.items()}
            it["ordered"] = False
        items.append(it)
    return items


def main(argv=None):
    tier, seed = R.tier_and_seed(argv)
    rng = random.Random(seed)
    q = tier == "quick"
    rep = R.Report(PROP, tier, seed)
    items = []
    n3, n4, n5 = (10, 3, 3) if q else (60, 40, 40)
    for _ in range(n3):
        d = SRinput(rng, rng.randint(2, 3), rng.randint(2, 3))
        items += rec_items(rng, d, 6 if q else 30, 0, False, True, 4000 if q else 20000, 200.0 if q else 900.0)
    for _ in range(n4):
        d = SRinput(rng, 4, rng.randint(2, 4))
        items += rec_items(rng, d, 3 if q else 12, 1, False, (not q) and rng.random() < 0.5, 6000 if q else 30000, 150.0 if q else 1500.0)
    for _ in range(n5):
        d = SRinput(rng, rng.randint(5, 6), rng.randint(3, 5))
        items += rec_items(rng, d, 2 if q else 6, 2, True, True, 6000 if q else 30000, 150.0 if q else 1500.0)
    order = sorted(range(len(items)), key=lambda i: -(items[i]["section"] * 100 + len(str(items[i]["desc"]["ot"]))))
    res, sk = R.run_sharded(worker, [items[i] for i in order], 140 if q else 3000)
    names = ["2-3 object leaves: one (w,h) per node + drawing parameters symbolic", "4 object leaves: one (w,h) per node symbolic",
             "5-6 object leaves: one (w,h) per node kind + drawing parameters symbolic"]
    for si, nm in enumerate(names):
        mine = [r for r in res if r.get("section") == si]
        rep.add_results(nm, mine, sum(1 for it in items if it["section"] == si) - len(mine), exhaustive=False)
    import superrec2.render.layout as L, superrec2.utils.geometry as G, superrec2.render.tikz as T
    rep.functions = R.safe_digest(lambda: R.source_digest(L.compute, L._compute_branches, L._add_losses, L._layout_branches, L._layout_subtrees, L._finalize_layout,
                                    G.Rect, G.Position, G.Size, T.render, T._tikz_draw_branches, T._tikz_draw_fork))
    rep.bounds = {"reconciliations": f"seeded inputs: {n3} with 2-3 object leaves (up to {6 if q else 30} valid reconciliations each from the independent enumerator), "
                                     f"{n4} with 4 leaves, {n5} with 5-6 leaves; 40% of labelled inputs drawn with synteny labels",
                  "numeric": "every node width/height a positive real (one pair per node up to 4 leaves, one pair per node kind above); "
                             "species_branch_padding, gene_branch_spacing, trunk_overhead, min_subtree_spacing, level_spacing positive reals",
                  "orientations": "vertical and horizontal in the same exploration"}
    rep.assumptions = ["floats are modelled as exact reals; counterexamples are replayed with exact rationals (decides) and with floats (reported)",
                       "z3 linear real arithmetic"]
    rep.stubs = RC.STUBS
    rep.outside = ["binary floating-point rounding", "TeX measurement itself", "inputs beyond the stated sizes"]
    return rep.finish(
        explanation="The real layout engine runs on symbolic positive real sizes and parameters; every feasible ordering of its min/max comparisons is a path; "
                    "on each path one z3 query proves all containment, disjointness, mirror and repeatability clauses (linear real arithmetic) for every "
                    "value of the sizes and parameters on that path.",
        rule="one evaluation = one reconciliation laid out in both orientations; non-trivial = exploration forked on a size comparison")


def SRinput(rng, no, ns):
    from checks import sr_common as SR
    if rng.random() < 0.5:
        return RC.documented_names(SR.random_super_input(rng, no, ns, rng.randint(1, 3), False))
    return RC.documented_names(D.random_plain_input(rng, no, ns))


if __name__ == "__main__":
    sys.exit(main())
