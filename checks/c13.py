"""C13 - a diagram shows exactly the events the cost model counts.

Engine A: node sizes are symbolic positive reals supplied by the stub measurer; the real
layout.compute and tikz.render run on them in both orientations and every feasible ordering of
the layout's comparisons (including the direction of every transfer arrow) is a path.  On every
path: one branch per object node, in the species it is mapped to, of the kind both the evaluator
and the independent oracle assign; one loss pseudo-gene per full loss, located in the species where
the oracle says the loss occurs; z3 proves that sizes are attached to the nodes they were measured
for; in the TikZ text one node statement per branch with the
matching style, one transfer arrow per transfer ending at the transferred child's anchor.
"""
import random
import re
import sys

import z3

from engine import harness as H
from engine import runner as R
from engine.forksym import Inconclusive, Lin
from engine.oracles import labels as LB
from checks import c14
from checks import dp_common as D
from checks import render_common as RC

from superrec2.model.reconciliation import EdgeEvent, NodeEvent
from superrec2.render.model import Orientation, PseudoGene

PROP = "C13"
EV = {"S": NodeEvent.SPECIATION, "D": NodeEvent.DUPLICATION, "T": NodeEvent.HORIZONTAL_TRANSFER}
STYLE = {NodeEvent.LEAF: "extant gene", NodeEvent.SPECIATION: "speciation", NodeEvent.DUPLICATION: "duplication",
         NodeEvent.HORIZONTAL_TRANSFER: "horizontal gene transfer", EdgeEvent.FULL_LOSS: "loss"}


def census(case, m, syn, ordered, orientation, sizes, per_kind, params, cl, shared=None):
    """Run layout+render once; return list of failure strings; add geometric claims to cl.
    shared: (rec, onode, snode) built once per item: both orientations (and any earlier drawing) use the same objects."""
    fails = []
    rec, onode, snode = shared if shared is not None else RC.build_rec(case, m, syn, ordered)
    cnt, ev, kept = D.RC.evaluate(case.O, case.S, m)
    # the horizontal run receives (h, w): sizes are universally quantified, and the swap makes both orientations
    # take the same comparisons, so the joint exploration does not multiply paths
    swap = orientation == Orientation.HORIZONTAL
    lay, text, meas = RC.run_layout(rec, orientation, sizes, per_kind, params, swap=swap, render=True)
    tag = orientation.name.lower()
    by_name = {s.name: L for s, L in lay.items()}
    # -- one branch per object node, in its species, of the right kind
    for u in range(case.O.n):
        node = onode[case.O.name[u]]
        homes = [s.name for s, L in lay.items() if node in L.branches]
        want_species = case.S.name[m[u]]
        if homes != [want_species]:
            fails.append(f"{tag}: object node {case.O.name[u]} has branches in {homes}, expected exactly [{want_species}]")
            continue
        br = by_name[want_species].branches[node]
        want = NodeEvent.LEAF if not case.O.children[u] else EV[ev[u]]
        if br.kind != want or br.kind != rec.node_event(node):
            fails.append(f"{tag}: node {case.O.name[u]} drawn as {br.kind.name}, oracle {want.name}, evaluator {rec.node_event(node).name}")
        if br.kind == NodeEvent.HORIZONTAL_TRANSFER:
            moved = case.O.children[u][1 - kept[u]]
            if br.right is not onode[case.O.name[moved]]:
                fails.append(f"{tag}: transfer at {case.O.name[u]} points to the wrong child")
    # -- loss pseudo-genes per species
    want_loss = RC.loss_species(case, m, ev, kept)
    for s, L in lay.items():
        pseudo = [g for g in L.branches if isinstance(g, PseudoGene)]
        for g in pseudo:
            if L.branches[g].kind != EdgeEvent.FULL_LOSS:
                fails.append(f"{tag}: pseudo-gene in {s.name} is not a loss")
        for g, br in L.branches.items():
            if br.kind == EdgeEvent.FULL_LOSS and not isinstance(g, PseudoGene):
                fails.append(f"{tag}: a real gene is drawn as a loss in {s.name}")
        w = want_loss.get(case.S.by_name[s.name], 0)
        if len(pseudo) != w:
            fails.append(f"{tag}: {len(pseudo)} loss marker(s) in species {s.name}, the cost model counts {w}")
    # -- sizes attached to the nodes they were requested for (request order = species postorder x branch order)
    if not per_kind and len(meas.requests) == 1:
        req = meas.requests[0]
        i = 0
        for s in rec.input.species_lca.tree.traverse("postorder"):
            for g, br in lay[s].branches.items():
                if i < len(req):
                    kind, name = req[i]
                    if kind != br.kind or name != br.name:
                        fails.append(f"{tag}: measurement request {i} is ({kind},{name!r}) but the branch is ({br.kind},{br.name!r})")
                    cl.eq(f"{tag}: width of branch {i} in {s.name} is the width measured for it", br.rect.w, sizes[i][1 if swap else 0])
                    cl.eq(f"{tag}: height of branch {i} in {s.name} is the height measured for it", br.rect.h, sizes[i][0 if swap else 1])
                i += 1
        if i != len(req):
            fails.append(f"{tag}: {len(req)} nodes measured, {i} branches laid out")
    elif len(meas.requests) != 1:
        fails.append(f"{tag}: measure_nodes called {len(meas.requests)} times")
    # -- TikZ text census
    nbr = {k: 0 for k in STYLE}
    for L in lay.values():
        for br in L.branches.values():
            nbr[br.kind] += 1
    for kind, style in STYLE.items():
        n = len(re.findall(r"\\node\[" + re.escape(style) + r"=", text))
        if n != nbr[kind]:
            fails.append(f"{tag}: {n} '{style}' node statement(s) in the TikZ code, {nbr[kind]} branch(es) in the layout")
    want_counts = {NodeEvent.LEAF: len(case.O.leaves), NodeEvent.SPECIATION: cnt[0], NodeEvent.DUPLICATION: cnt[1],
                   NodeEvent.HORIZONTAL_TRANSFER: cnt[2], EdgeEvent.FULL_LOSS: cnt[3]}
    for kind, n in want_counts.items():
        if nbr[kind] != n:
            fails.append(f"{tag}: {nbr[kind]} {STYLE[kind]} branch(es), the cost model counts {n}")
    arrows = re.findall(r"\\path\[transfer branch=\{[^}]*\}\] \(([^)]*)\) to\[[^\]]*\] \(([^)]*)\);", text)
    if len(arrows) != cnt[2]:
        fails.append(f"{tag}: {len(arrows)} transfer arrow(s), {cnt[2]} transfer(s)")
    ends = sorted(a[1] for a in arrows)
    want_ends = []
    for u, kind in ev.items():
        if kind == "T":
            moved = onode[case.O.name[case.O.children[u][1 - kept[u]]]]
            home = by_name[case.S.name[m[case.O.by_name[moved.name]]]]
            if moved in home.anchors:
                want_ends.append(format(home.anchors[moved], "4"))
            else:
                fails.append(f"{tag}: transferred child {moved.name} has no anchor in its species")
    if sorted(want_ends) != ends:
        fails.append(f"{tag}: transfer arrows end at {ends}, transferred children are anchored at {sorted(want_ends)}")
    return fails, text, lay


def run_both(ctx, case, m, syn, ordered, sizes, per_kind, params, prior=None):
    cl = c14.Clauses(ctx)
    fails = []
    shared = RC.build_rec(case, m, syn, ordered)
    RC.draw_prior(case, shared[0].input, prior)
    for orient in (Orientation.VERTICAL, Orientation.HORIZONTAL):
        f, _text, _lay = census(case, m, syn, ordered, orient, sizes, per_kind, params, cl, shared)
        fails += f
    return fails, cl


def concrete_failures(desc, m, syn, ordered, per_kind, sym_params, values, prior=None):
    case = H.Case(desc)
    m = {int(k): v for k, v in m.items()}
    syn2 = {int(k): tuple(v) for k, v in syn.items()} if syn is not None else None
    nb = c14.count_branches(case, m)
    sizes, params = RC.concrete_sizes(values, nb, per_kind, sym_params)
    try:
        fails, cl = run_both(None, case, m, syn2, ordered, sizes, per_kind, params, prior)
    except Exception as e:
        return [f"exception {type(e).__name__}: {e}"]
    return fails + cl.failed_concrete()


def replay(data):
    cf = concrete_failures(data["desc"], data["mapping"], data.get("syn"), data.get("ordered"), data["per_kind"], data["sym_params"], RC.unfrac(data["values"]),
                           data.get("after"))
    for t in cf[:6]:
        print("  reproduced:", t)
    return bool(cf)


def worker(item):
    desc = item["desc"]
    case = H.Case(desc)
    m = {int(k): v for k, v in item["mapping"].items()}
    syn = {int(k): tuple(v) for k, v in item["syn"].items()} if item.get("syn") else None
    ordered = item.get("ordered")
    per_kind, sym_params = item["per_kind"], item["sym_params"]
    out = dict(paths=0, obligations=0, discharged=0, violations=[], sample=None, solver_queries=0, solver_s=0.0, forks=0)
    try:
        nb = c14.count_branches(case, m)
        ctx, sizes, params = RC.make_ctx(nb, per_kind, sym_params, item["max_paths"], item["budget_s"])
        for _ in ctx.paths():
            try:
                fails, cl = run_both(ctx, case, m, syn, ordered, sizes, per_kind, params, item.get("after"))
            except Exception as e:
                fails, cl = [f"exception {type(e).__name__}: {e}"], c14.Clauses(ctx)
            nstruct = 8 * case.O.n
            out["obligations"] += nstruct + len(cl.items)
            bad = fails + cl.failed_concrete()
            model = None
            claims = cl.z3_claims()
            if not bad and claims:
                model = ctx.prove(z3.And(*[c for _, c in claims]))
            if bad or model is not None:
                vals = model if model is not None else ctx.model_values()
                cf = concrete_failures(desc, item["mapping"], item.get("syn"), ordered, per_kind, sym_params, vals, item.get("after"))
                out["violations"].append({
                    "kind": "census", "text": f"{(bad or cf)[:3]}; input {desc}; mapping {item['mapping']}" + (f" (drawn after reconciliation {item['after']} of the same input object)" if item.get("after") else "") + f"; sizes {RC.frac_str(vals)}; concrete: {cf[:2]}",
                    "signature": {"kind": "census", "desc": desc, "mapping": item["mapping"], "what": (bad or cf or ['?'])[0][:60]},
                    "data": {"desc": desc, "mapping": item["mapping"], "syn": item.get("syn"), "ordered": ordered, "per_kind": per_kind,
                             "sym_params": sym_params, "values": RC.frac_str(vals), "after": item.get("after")},
                    "confirmed": bool(cf)})
                break
            out["discharged"] += nstruct + len(cl.items)
            if out["sample"] is None and ctx.npaths >= 2:
                cnt, ev, kept = D.RC.evaluate(case.O, case.S, m)
                out["sample"] = {"input": desc, "mapping": case.mapping_names(m), "events": {case.O.name[u]: k for u, k in ev.items()},
                                 "counts(spe,dup,hgt,floss)": cnt, "loss_species": {case.S.name[s]: n for s, n in RC.loss_species(case, m, ev, kept).items()},
                                 "path_condition": ctx.pc_text(4)}
        st = ctx.stats()
        out.update(paths=st["paths"], solver_queries=st["solver_queries"], solver_s=st["solver_s"], forks=st["forks"])
    except Inconclusive as e:
        out["status"] = "inconclusive"
        out["reason"] = str(e)
    out["nontrivial"] = out["forks"] > 0
    out["item"] = {"desc": desc, "mapping": item["mapping"]}
    out["section"] = item["section"]
    return out


def main(argv=None):
    tier, seed = R.tier_and_seed(argv)
    rng = random.Random(seed)
    q = tier == "quick"
    rep = R.Report(PROP, tier, seed)
    items = []
    n3, n4, n5 = (30, 14, 16) if q else (80, 50, 60)
    for _ in range(n3):
        d = c14.SRinput(rng, rng.randint(2, 3), rng.randint(2, 3))
        items += c14.rec_items(rng, d, 8 if q else 10 ** 6, 0, False, False, 4000 if q else 20000, 60.0 if q else 900.0)
    for _ in range(n4):
        d = c14.SRinput(rng, 4, rng.randint(2, 4))
        items += c14.rec_items(rng, d, 4 if q else 40, 1, q or rng.random() < 0.7, False, 6000 if q else 30000, 60.0 if q else 1200.0)
    for _ in range(n5):
        d = c14.SRinput(rng, rng.randint(5, 6 if q else 8), rng.randint(3, 5))
        items += c14.rec_items(rng, d, 3 if q else 10, 2, True, False, 6000 if q else 30000, 60.0 if q else 1200.0)
    order = sorted(range(len(items)), key=lambda i: -(items[i]["section"] * 100 + len(str(items[i]["desc"]["ot"]))))
    res, sk = R.run_sharded(worker, [items[i] for i in order], 140 if q else 3000)
    names = ["2-3 object leaves, one symbolic (w,h) per node", "4 object leaves, one symbolic (w,h) per node kind (thorough: 30% per node)", "5-8 object leaves, one symbolic (w,h) per node kind"]
    for si, nm in enumerate(names):
        mine = [r for r in res if r.get("section") == si]
        rep.add_results(nm, mine, sum(1 for it in items if it["section"] == si) - len(mine), exhaustive=False)
    import superrec2.render.layout as L, superrec2.render.tikz as T, superrec2.model.reconciliation as M
    rep.functions = R.safe_digest(lambda: R.source_digest(L.compute, L._compute_branches, L._add_losses, L._layout_branches, L._layout_subtrees, L._finalize_layout,
                                    T.render, T._tikz_draw_branches, T._tikz_draw_fork, M.ReconciliationOutput.node_event))
    rep.bounds = {"reconciliations": f"seeded inputs: {n3} with 2-3 object leaves ({'up to 8' if q else 'all'} valid reconciliations each, from the independent "
                                     f"enumerator), {n4} with 4 leaves, {n5} with 5-{6 if q else 8} leaves; with and without synteny labels; both orientations",
                  "numeric": "node widths/heights positive reals (per node up to 4 leaves, per node kind above)"}
    rep.assumptions = ["event kinds and loss locations come from engine/oracles/recon.py (and are cross-checked with the package's node_event)"]
    rep.stubs = RC.STUBS
    rep.outside = ["TeX measurement itself (stubbed)", "inputs beyond the stated sizes"]
    return rep.finish(
        explanation="Layout and renderer run on symbolic node sizes; every feasible ordering of their comparisons is a path. On every path the census of "
                    "event nodes, loss markers and transfer arrows (layout structures and generated TikZ text) is compared with the independent cost "
                    "model, and z3 proves each size attached to the node it was measured for.",
        rule="one evaluation = one reconciliation drawn in both orientations; non-trivial = exploration forked on a size comparison")


if __name__ == "__main__":
    sys.exit(main())
