"""C15 - generated TikZ is well-formed and labels are faithful.

* tex.escape: CrossHair (engine C) on a symbolic string, specification = character-wise
  homomorphism (backslash -> two backslashes, underscore -> backslash underscore).
* render (engine A): node sizes symbolic through the stub measurer, names drawn from letters,
  digits, underscores and backslashes, random (also nested) colour annotations; on every feasible
  path of layout + renderer the text passes a TikZ lexer (balanced braces, one picture, every
  statement terminated, every reccolorN defined before the picture), every node's colour is that of
  its nearest coloured ancestor-or-self (black otherwise) - loss markers take the colour of the
  lineage they interrupt -, and every label lists exactly the node's families in order (ancestral
  label omitted iff equal to its parent's).
* balanced_wrap / format_synteny wrapping: the wrapper works on concrete strings (textwrap); the
  word-list space of the property (small alphabet) is enumerated exhaustively - stated as enumeration.
"""
import itertools
import random
import re
import sys
import textwrap

import z3

from engine import harness as H
from engine import runner as R
from engine import xhair
from engine.forksym import Inconclusive
from engine.oracles import labels as LB
from checks import c14
from checks import dp_common as D
from checks import render_common as RC

from superrec2.model.reconciliation import EdgeEvent, NodeEvent
from superrec2.model.synteny import format_synteny
from superrec2.render.model import Orientation, PseudoGene
from superrec2.utils.text import balanced_wrap

PROP = "C15"
BS = chr(92)


def esc(s):
    """Independent specification of TeX escaping."""
    return "".join((BS + BS) if c == BS else ((BS + "_") if c == "_" else c) for c in s)


XH_SOURCE = '''
from superrec2.utils.tex import escape


def spec(s: str) -> str:
    return "".join((chr(92) * 2) if c == chr(92) else ((chr(92) + "_") if c == "_" else c) for c in s)


def check_escape(s: str) -> bool:
    """
    pre: len(s) <= %(n)d
    post: __return__
    """
    return escape(s) == spec(s)


def twin_escape(s: str) -> bool:
    """
    pre: len(s) <= %(n)d
    post: __return__
    """
    return not (chr(92) in s and "_" in s)
'''


def escape_item(item):
    out = dict(paths=1, obligations=2, discharged=0, violations=[], solver_queries=0, solver_s=0.0, nontrivial=True, item=item, section=0)
    r = xhair.run(XH_SOURCE % {"n": item["n"]}, per_condition_timeout=item["timeout"], extra_path=[__import__("os").environ.get("VERIF_REPO_SRC", "/repo/src")])
    ce = r.get("check_escape", {"verdict": "inconclusive", "detail": "no report: " + r.get("_raw", "")[-300:]})
    tw = r.get("twin_escape", {"verdict": "inconclusive", "detail": "no report"})
    out["solver_s"] = r.get("_wall_s", 0.0)
    out["sample"] = {"function": "tex.escape", "engine": "CrossHair", "bound": f"len(s) <= {item['n']}", "verdict": ce["verdict"],
                     "reachability twin": tw["verdict"] + ": " + tw.get("detail", "")[:80], "wall_s": r.get("_wall_s")}
    if tw["verdict"] == "counterexample":
        out["discharged"] += 1          # the twin must be refuted: the harness reaches strings with both special characters
    else:
        return {"status": "inconclusive", "reason": f"CrossHair reachability twin not refuted ({tw['verdict']}: {tw.get('detail','')[:100]})", "item": item, "section": 0}
    if ce["verdict"] == "confirmed":
        out["discharged"] += 1
    elif ce["verdict"] == "counterexample":
        m = re.search(r"check_escape\((.*?)\) \(which", ce["detail"]) or re.search(r"check_escape\((.*)\)\s*$", ce["detail"])
        try:
            arg = eval(m.group(1)) if m else None
        except SyntaxError:
            arg = None
        if not isinstance(arg, str):
            return {"status": "inconclusive", "reason": f"CrossHair counterexample not understood: {ce['detail'][:200]}", "item": item, "section": 0}
        from superrec2.utils.tex import escape
        out["violations"].append({"kind": "escape", "text": f"escape({arg!r}) = {escape(arg) if arg is not None else '?'!r}, specification {esc(arg) if arg is not None else '?'!r}",
                                  "signature": {"kind": "escape", "arg": arg}, "data": {"what": "escape", "arg": arg},
                                  "confirmed": arg is not None and escape(arg) != esc(arg)})
    else:
        return {"status": "inconclusive", "reason": f"CrossHair: {ce['detail'][:120]}", "item": item, "section": 0}
    return out


# ----------------------------------------------------------------------------- lexer
def lex_fails(text):
    fails = []
    depth = 0
    i = 0
    while i < len(text):
        ch = text[i]
        if ch == BS and i + 1 < len(text) and text[i + 1] in "{}" + BS:
            i += 2
            continue
        if ch == "{":
            depth += 1
        elif ch == "}":
            depth -= 1
            if depth < 0:
                fails.append("closing brace without opening brace")
                break
        i += 1
    if depth != 0:
        fails.append(f"unbalanced braces (depth {depth} at end)")
    if text.count(BS + "begin{tikzpicture}") != 1 or text.count(BS + "end{tikzpicture}") != 1:
        fails.append("not exactly one tikzpicture environment")
        return fails
    head, rest = text.split(BS + "begin{tikzpicture}")
    body, tail = rest.split(BS + "end{tikzpicture}")
    if tail.strip():
        fails.append("text after the picture")
    defined = set(re.findall(r"\\definecolor\{(reccolor\d+)\}\{HTML\}\{[0-9A-Fa-f]{6}\}", head))
    used = set(re.findall(r"reccolor\d+", body))
    if not used <= defined:
        fails.append(f"colours used but not defined before the picture: {sorted(used - defined)}")
    if re.search(r"\\definecolor", body):
        fails.append("colour defined inside the picture")
    for line in body.split("\n"):
        l = line.strip()
        if not l or l.startswith("%"):
            continue
        if not (l.startswith(BS + "path") or l.startswith(BS + "node")):
            fails.append(f"unexpected statement start: {l[:40]}")
        if not l.endswith(";"):
            fails.append(f"statement not terminated: {l[:60]}")
    return fails


def color_defs(text):
    return dict(re.findall(r"\\definecolor\{(reccolor\d+)\}\{HTML\}\{([0-9A-Fa-f]{6})\}", text))


# ----------------------------------------------------------------------------- render oracle
def expected_colors(case, ocolors):
    exp = {}
    for u in range(case.O.n):
        col = "000000"
        for a in case.O.anc[u]:          # self first, then ancestors upwards
            if str(a) in ocolors:
                col = ocolors[str(a)]
                break
        exp[u] = col
    return exp


def leaf_label_fails(name, label):
    mark = BS + "textsubscript{"
    if label.count(mark) != 1 or not label.endswith("}"):
        return "expected <text>" + mark + "<text>}"
    head, sub = label[:-1].split(mark)
    parts = []
    for piece in (head, sub):
        out, i = [], 0
        while i < len(piece):
            c = piece[i]
            if c == BS:
                if i + 1 >= len(piece) or piece[i + 1] not in (BS, "_"):
                    return "a backslash of the name is not escaped"
                out.append(piece[i + 1])
                i += 2
                continue
            if c == "_":
                return "an underscore of the name is not escaped"
            out.append(c)
            i += 1
        parts.append("".join(out))
    if name not in (parts[0] + "_" + parts[1],):
        return f"the label reads {parts[0]!r} + subscript {parts[1]!r}, which is not the name split at an underscore"
    return None


def label_width_fails(case, lay, onode, syn, ordered, width, tag):
    """Wrapped labels of ONE drawing: no multi-word line longer than that drawing's width, no more lines than greedy wrapping."""
    fails = []
    name_of = {id(n): case.O.by_name[n.name] for n in onode.values()}
    for s, L in lay.items():
        for g, br in L.branches.items():
            if isinstance(g, PseudoGene) or not br.name or "textsubscript" in br.name:
                continue
            u = name_of[id(g)]
            fams = list(syn[u]) if ordered else sorted(syn[u])
            if any(BS in f for f in fams):
                continue        # an escaped backslash and the line-break marker are both a double backslash
            lines = br.name.split(BS + BS)
            for l in lines:
                if len(l) > width and len(l.split()) > 1:
                    fails.append(f"{tag}: label line {l!r} of {case.O.name[u]} is longer than the drawing's label width {width}")
            greedy = textwrap.wrap(", ".join(esc(f) for f in (fams if ordered else sorted(esc(f) for f in fams))), width, break_long_words=False) if ordered else None
            if greedy is not None and len(lines) > len(greedy):
                fails.append(f"{tag}: label of {case.O.name[u]} uses {len(lines)} lines at width {width}, greedy wrapping needs {len(greedy)}")
    return fails


def render_fails(case, desc, m, syn, ordered, orientation, sizes, per_kind, params, shared=None):
    fails = []
    rec, onode, snode = shared if shared is not None else RC.build_rec(case, m, syn, ordered)
    lay, text, _ = RC.run_layout(rec, orientation, sizes, per_kind, params, swap=(orientation == Orientation.HORIZONTAL), render=True)
    tag = orientation.name.lower()
    if syn is not None:
        # the same reconciliation drawn again in the same interpreter with a narrow, then the default, then no label width:
        # each drawing must obey ITS OWN width
        fails += label_width_fails(case, lay, onode, syn, ordered, 18, tag)
        for w in (6, 18, 40):
            lay_w, _t, _ = RC.run_layout(rec, orientation, sizes, per_kind, dict(params, event_label_width=w),
                                         swap=(orientation == Orientation.HORIZONTAL), render=True)
            fails += label_width_fails(case, lay_w, onode, syn, ordered, w, f"{tag}, label width {w}")
    fails += [f"{tag}: {f}" for f in lex_fails(text)]
    exp = expected_colors(case, desc.get("ocolors") or {})
    name_of = {id(n): case.O.by_name[n.name] for n in onode.values()}
    defs = color_defs(text)
    used_html = set()
    for s, L in lay.items():
        for g, br in L.branches.items():
            x = g
            while isinstance(x, PseudoGene):       # follow the interrupted lineage down to a real gene
                b = None
                for LL in lay.values():
                    if x in LL.branches:
                        b = LL.branches[x]
                x = b.left if b.left is not None else b.right
            u = name_of[id(x)]
            used_html.add(br.color)
            if br.color != exp[u]:
                what = "loss marker above" if isinstance(g, PseudoGene) else "node"
                fails.append(f"{tag}: {what} {case.O.name[u]} drawn in {br.color}, expected {exp[u]}")
    if set(defs.values()) != used_html:
        fails.append(f"{tag}: colours defined {sorted(defs.values())} != colours used by branches {sorted(used_html)}")
    # labels
    if syn is not None:
        by_node = {}
        for s, L in lay.items():
            for g, br in L.branches.items():
                if not isinstance(g, PseudoGene):
                    by_node[name_of[id(g)]] = br.name
        for u in range(case.O.n):
            fams = list(syn[u]) if ordered else None
            label = by_node.get(u, None)
            if label is None:
                continue
            par = case.O.parent[u]
            same_as_parent = par is not None and (tuple(syn[u]) == tuple(syn[par]) if ordered else set(syn[u]) == set(syn[par]))
            if case.O.children[u] and same_as_parent:
                if label != "":
                    fails.append(f"{tag}: ancestral label of {case.O.name[u]} should be omitted (equal to its parent's)")
                continue
            words = [w.rstrip(",") for w in label.replace(BS + BS, " ").split()] if label else []
            # undo the line-break marker only where it stands for a wrap: an escaped backslash inside a name is doubled as well,
            # so names with backslashes are compared on the unwrapped text instead
            if ordered:
                want = [esc(g) for g in syn[u]]
                # the escaped families in order, separated by ", " or by a comma and the line-break marker (order-sensitive also when a
                # family name holds a backslash, whose escape looks like the line-break marker)
                ok = re.fullmatch(("(?:, |," + re.escape(BS + BS) + ")").join(re.escape(w) for w in want), label) is not None
            else:
                want = sorted(esc(g) for g in syn[u])
                ok = sorted(words) == want if not any(BS in g for g in syn[u]) else True
            if not ok:
                fails.append(f"{tag}: label of {case.O.name[u]} is {label!r}, families {list(syn[u])}")
    else:
        # leaves drawn without a synteny label show their own name, split at ONE underscore into text + subscript: the label with the
        # subscript markup removed must be properly escaped text whose content is the leaf's name minus one underscore
        by_leaf = {name_of[id(g)]: br.name for L in lay.values() for g, br in L.branches.items() if not isinstance(g, PseudoGene)}
        for u in case.O.leaves:
            nm, label = case.O.name[u], by_leaf.get(u)
            if label is None or not nm or "_" not in nm:
                continue
            f = leaf_label_fails(nm, label)
            if f:
                fails.append(f"{tag}: leaf label of {nm!r} is {label!r}: {f}")
    # species labels
    for sp in case.S.leaves:
        nm = case.S.name[sp]
        if "{" + esc(nm) + "}" not in text:
            fails.append(f"{tag}: species label of {nm!r} not found escaped as {esc(nm)!r}")
    return fails


def concrete_failures(desc, m, syn, ordered, per_kind, values):
    case = H.Case(desc)
    m = {int(k): v for k, v in m.items()}
    syn2 = {int(k): tuple(v) for k, v in syn.items()} if syn is not None else None
    nb = c14.count_branches(case, m)
    sizes, params = RC.concrete_sizes(values, nb, per_kind, False)
    out = []
    shared = RC.build_rec(case, m, syn2, ordered)
    for o in (Orientation.VERTICAL, Orientation.HORIZONTAL):
        try:
            out += render_fails(case, desc, m, syn2, ordered, o, sizes, per_kind, params, shared)
        except Exception as e:
            out.append(f"exception {type(e).__name__}: {e}")
    return out


def render_item(item):
    desc = item["desc"]
    case = H.Case(desc)
    m = {int(k): v for k, v in item["mapping"].items()}
    syn = {int(k): tuple(v) for k, v in item["syn"].items()} if item.get("syn") else None
    ordered = item.get("ordered")
    per_kind = item["per_kind"]
    out = dict(paths=0, obligations=0, discharged=0, violations=[], sample=None, solver_queries=0, solver_s=0.0, forks=0)
    try:
        nb = c14.count_branches(case, m)
        ctx, sizes, params = RC.make_ctx(nb, per_kind, False, item["max_paths"], item["budget_s"])
        for _ in ctx.paths():
            fails = []
            shared = RC.build_rec(case, m, syn, ordered)
            for o in (Orientation.VERTICAL, Orientation.HORIZONTAL):
                try:
                    fails += render_fails(case, desc, m, syn, ordered, o, sizes, per_kind, params, shared)
                except Exception as e:
                    fails.append(f"exception {type(e).__name__}: {e}")
            nob = 2 * (6 + 2 * case.O.n)
            out["obligations"] += nob
            if fails:
                vals = ctx.model_values()
                cf = concrete_failures(desc, item["mapping"], item.get("syn"), ordered, per_kind, vals)
                out["violations"].append({
                    "kind": "render", "text": f"{fails[:3]}; input {desc}; mapping {item['mapping']}; syntenies {item.get('syn')}; concrete: {cf[:2]}",
                    "signature": {"kind": "render", "what": re.sub(r"o\d+|[0-9a-f]{6}", "*", fails[0])[:70]},
                    "data": {"what": "render", "desc": desc, "mapping": item["mapping"], "syn": item.get("syn"), "ordered": ordered,
                             "per_kind": per_kind, "values": RC.frac_str(vals)}, "confirmed": bool(cf)})
                break
            out["discharged"] += nob
            if out["sample"] is None:
                out["sample"] = {"input": desc, "mapping": case.mapping_names(m), "colours": desc.get("ocolors"), "labelled": syn is not None}
        st = ctx.stats()
        out.update(paths=st["paths"], solver_queries=st["solver_queries"], solver_s=st["solver_s"], forks=st["forks"])
    except Inconclusive as e:
        out["status"] = "inconclusive"
        out["reason"] = str(e)
    out["nontrivial"] = bool(desc.get("ocolors")) or syn is not None
    out["item"] = {"desc": desc, "mapping": item["mapping"]}
    out["section"] = 1
    return out


# ----------------------------------------------------------------------------- wrapping (enumeration)
def wrap_fails(words, width):
    text = ", ".join(words)
    res = balanced_wrap(text, width)
    lines = res.split("\n")
    fails = []
    if " ".join(lines).split() != text.split():
        fails.append("words changed")
    for l in lines:
        if len(l) > width and len(l.split()) > 1:
            fails.append(f"line {l!r} longer than {width}")
    greedy = textwrap.wrap(text, width, break_long_words=False)
    if len(lines) > len(greedy):
        fails.append(f"{len(lines)} lines, greedy needs {len(greedy)}")
    fs = format_synteny(words, width)
    if fs != res:
        fails.append("format_synteny(width) differs from balanced_wrap of the joined families")
    if format_synteny(words) != text:
        fails.append("format_synteny without width is not the comma-joined list")
    return fails


def wrap_item(item):
    out = dict(paths=1, obligations=0, discharged=0, violations=[], solver_queries=0, solver_s=0.0, nontrivial=True, item={"lens": item["lens"]}, section=2)
    words = ["abcdefgh"[:k] for k in item["lens"]]
    for width in range(1, 31):
        out["obligations"] += 1
        try:
            f = wrap_fails(words, width)
        except Exception as e:
            f = [f"exception {type(e).__name__}: {e}"]
        if f:
            out["violations"].append({"kind": "wrap", "text": f"balanced_wrap({', '.join(words)!r}, {width}): {f}",
                                      "signature": {"kind": "wrap", "lens": item["lens"], "width": width},
                                      "data": {"what": "wrap", "words": words, "width": width}, "confirmed": True})
            break
        out["discharged"] += 1
    if item.get("sample"):
        out["sample"] = {"wrapper": "balanced_wrap", "words": words, "widths": "1..30", "method": "exhaustive enumeration (not solver)"}
    return out


def worker(item):
    if item["kind"] == "escape":
        return escape_item(item)
    if item["kind"] == "render":
        return render_item(item)
    return wrap_item(item)


def replay(data):
    if data["what"] == "escape":
        from superrec2.utils.tex import escape
        return escape(data["arg"]) != esc(data["arg"])
    if data["what"] == "wrap":
        f = wrap_fails(data["words"], data["width"])
        print("  ", f)
        return bool(f)
    cf = concrete_failures(data["desc"], data["mapping"], data.get("syn"), data.get("ordered"), data["per_kind"], RC.unfrac(data["values"]))
    for t in cf[:5]:
        print("  reproduced:", t)
    return bool(cf)


NAME_CHARS = ["a", "B", "7", "_", BS]


def funny(rng, base, k):
    """A name over letters, digits, underscores, backslashes that still parses as a Newick label."""
    body = "".join(rng.choice(NAME_CHARS) for _ in range(rng.randint(0, 3)))
    if rng.random() < 0.15:
        body += rng.choice([BS + "_", "_" + BS, BS + BS, "__"])        # the special characters next to each other, in both orders
    return f"{base}{body}{k}"


def decorate(rng, desc):
    """Rename species / leaves / families with special characters, add random (nested) colours."""
    d = RC.documented_names(desc)
    ol = sorted(d["leafmap"])
    sl = sorted(set(c14_leaves(H.totuple(d["st"]))))
    po = {l: funny(rng, "g", "") + "_" + str(i) + rng.choice(["", "", "a", BS, BS + "b", "B" + BS]) for i, l in enumerate(ol)}
    ps = {l: funny(rng, "S", str(i)) for i, l in enumerate(sl)}
    fams = sorted(set(g for s in (d.get("leafsyn") or {}).values() for g in s))
    pf = {f: funny(rng, "f", str(i)) for i, f in enumerate(fams)}

    def ren(t, mp):
        return mp[t] if isinstance(t, str) else tuple(ren(c, mp) for c in t)

    d["ot"], d["st"] = ren(H.totuple(d["ot"]), po), ren(H.totuple(d["st"]), ps)
    d["leafmap"] = {po[k]: ps[v] for k, v in d["leafmap"].items()}
    if d.get("leafsyn"):
        d["leafsyn"] = {po[k]: [pf[g] for g in v] for k, v in d["leafsyn"].items()}
    case = H.Case(d)
    cols = {}
    for u in range(case.O.n):
        if rng.random() < 0.35:
            cols[str(u)] = rng.choice(["ff0000", "00ff00", "0000ff", "123abc", "000000"])      # explicit black switches a clade back inside a highlighted subtree
    d["ocolors"] = cols
    if cols and not d.get("unnamed") and rng.random() < 0.3:
        d["colorattr"] = True          # the colours are assigned as plain Python attributes instead of NHX features
    return d


def c14_leaves(t):
    return [t] if isinstance(t, str) else [l for c in t for l in c14_leaves(c)]


def main(argv=None):
    tier, seed = R.tier_and_seed(argv)
    rng = random.Random(seed)
    q = tier == "quick"
    rep = R.Report(PROP, tier, seed)
    items = [{"kind": "escape", "n": 4 if q else 5, "timeout": 60 if q else 600, "section": 0}]
    nin = 30 if q else 300
    from checks import sr_common as SR
    for _ in range(nin):
        no = rng.randint(2, 5 if q else 6)
        ordered = rng.random() < 0.5
        base = SR.random_super_input(rng, no, rng.randint(2, 4), rng.randint(1, 4), ordered) if rng.random() < 0.7 else D.random_plain_input(rng, no, rng.randint(2, 4))
        d = decorate(rng, base)
        case = H.Case(d)
        orc = D.Oracle(case)
        for m, cnt, ev, kept in rng.sample(orc.recs, min(len(orc.recs), 3 if q else 8)):
            it = {"kind": "render", "desc": d, "mapping": {str(k): v for k, v in m.items()}, "per_kind": True,
                  "max_paths": 3000 if q else 20000, "budget_s": 60.0 if q else 900.0}
            if case.leafsyn is not None:
                if ordered:
                    labs = [s for s in itertools.islice(LB.ordered_labellings(case.O, case.leafsyn), 400) if LB.ordered_sloss(case.O, ev, kept, s) is not None]
                else:
                    labs = [s for s, _ in LB.unordered_labellings(case.O, case.leafsyn)]
                if labs:
                    syn = rng.choice(labs)
                    it["syn"] = {str(k): (list(v) if ordered else sorted(v)) for k, v in syn.items()}
                    it["ordered"] = ordered
            items.append(it)
    maxw = 4 if q else 5
    first = True
    for n in range(1, maxw + 1):
        for lens in itertools.product(range(1, 7), repeat=n):
            if q and n == 4 and rng.random() < 0.7:
                continue
            items.append({"kind": "wrap", "lens": list(lens), "sample": first and n == 3})
            first = first and n != 3
    for it in items:
        it.setdefault("section", {"escape": 0, "render": 1, "wrap": 2}[it["kind"]])      # a failed evaluation stays attributed to its section
    res, sk = R.run_sharded(worker, items, 140 if q else 3000)
    names = ["tex.escape (CrossHair)", "render: lexer, colour scoping, labels (engine A paths)", "balanced_wrap / format_synteny (exhaustive enumeration)"]
    for si, nm in enumerate(names):
        mine = [r for r in res if r.get("section") == si]
        total = sum(1 for it in items if {"escape": 0, "render": 1, "wrap": 2}[it["kind"]] == si)
        rep.add_results(nm, mine, total - len(mine), exhaustive=(si == 2 and not q))
    import superrec2.utils.tex as X, superrec2.utils.text as W, superrec2.model.synteny as Y, superrec2.render.tikz as T, superrec2.render.layout as L
    rep.functions = R.safe_digest(lambda: R.source_digest(X.escape, W.balanced_wrap, W._wrap_badness, Y.format_synteny, Y.sort_synteny, T.render, T._tikz_draw_branches,
                                    T._tikz_draw_fork, T.get_tikz_definitions, L._compute_branches, L._add_losses))
    rep.bounds = {"escape": f"every string with len <= {4 if q else 5} (CrossHair, symbolic str)",
                  "render": f"{nin} seeded inputs with 2-{5 if q else 6} object leaves, names over letters/digits/underscore/backslash, colours on ~35% of the object nodes "
                            "(nested), up to 3 (thorough: 8) valid reconciliations each, ordered and unordered labellings; node sizes symbolic per kind; both orientations",
                  "wrap": f"every list of 1-{maxw} words of length 1-6 (quick: 30% of the 4-word lists), widths 1-30"}
    rep.assumptions = ["whether TikZ accepts the picture is approximated by a lexer (brace balance, statement termination, colour definitions)",
                       "the wrapping sub-claim is decided by exhaustive enumeration: textwrap works on concrete strings and CrossHair cannot confirm it (DESIGN 1)"]
    rep.stubs = RC.STUBS
    rep.outside = ["TeX compilation", "names containing braces, brackets, colons, commas or whitespace", "whitespace-only text for the wrapper"]
    return rep.finish(
        explanation="tex.escape is decided by CrossHair on a symbolic string against a character-wise specification. The renderer runs on symbolic node sizes "
                    "(every feasible layout path) and its output is lexed and compared with an independent colour/label oracle. The wrapper is enumerated.",
        rule="one evaluation = the escape contract, one reconciliation rendered in both orientations, or one word list under 30 widths; non-trivial = has colours "
             "or labels / more than one word")


if __name__ == "__main__":
    sys.exit(main())
