"""C17 - ancestry and range-minimum queries are exact.

* RangeMinQuery (engine A, `Term` values): array elements are arbitrary symbolic integers; the
  real constructor and query code run on them; for every (start, stop) z3 proves the result is
  <= every element of the slice and equal to one of them (None iff the range is empty).  For
  n <= 5 the real builtin `min` is used (comparisons fork); for larger n the module's `min` is
  bound to an ite model of the builtin (listed as a stub) so that one path covers all orderings.
* _ilog2 (engine B): 2^r <= v < 2^(r+1) for every v in [1, 2^24).
* LowestCommonAncestor: the tree shape has no numeric dimension; every rooted plane tree of any
  arity up to the bound and every node pair/triple is enumerated exhaustively on the real code and
  compared with parent-chain definitions (stated as enumeration, the solver is not involved).
"""
import itertools
import random
import sys

import z3
from ete3 import Tree

from engine import runner as R
from engine.forksym import Ctx, Inconclusive, Term, ite_min
from engine.py2smt import Translator, Unsupported, eval_concrete

import superrec2.utils.range_min_query as RMQ
from superrec2.utils.trees import LowestCommonAncestor

PROP = "C17"


# ----------------------------------------------------------------------------- RMQ
def rmq_item(item):
    n, use_ite = item["n"], item["ite"]
    ctx = Ctx([], max_paths=item.get("max_paths", 5000), budget_s=item.get("budget_s", 600))
    zs = [z3.Int(f"a{i}") for i in range(n)]
    data = [Term(ctx, z) for z in zs]
    out = dict(obligations=0, discharged=0, violations=[], item=item)
    saved = RMQ.__dict__.get("min")
    if use_ite:
        RMQ.min = ite_min
    try:
        for _ in ctx.paths():
            q = RMQ.RangeMinQuery(data)
            for start in range(0, n + 1):
                for stop in range(0, n + 1):
                    res = q(start, stop)
                    out["obligations"] += 1
                    if start >= stop:
                        if res is None:
                            out["discharged"] += 1
                        else:
                            out["violations"].append(_rmq_violation(n, start, stop, ctx.model_values_z(zs), "empty range must give None"))
                        continue
                    if not isinstance(res, Term):
                        out["violations"].append(_rmq_violation(n, start, stop, ctx.model_values_z(zs), f"result {res!r} is not an element"))
                        continue
                    claim = z3.And(*[res.z <= zs[i] for i in range(start, stop)], z3.Or(*[res.z == zs[i] for i in range(start, stop)]))
                    m = ctx.prove_raw(claim, zs)
                    if m is None:
                        out["discharged"] += 1
                    else:
                        out["violations"].append(_rmq_violation(n, start, stop, m, "result is not the minimum of the slice"))
                    if len(out["violations"]) > 2:
                        break
                if len(out["violations"]) > 2:
                    break
            if out["violations"]:
                break
    except Inconclusive as e:
        return {"status": "inconclusive", "reason": str(e), "item": item}
    finally:
        if saved is None:
            RMQ.__dict__.pop("min", None)
        else:
            RMQ.min = saved
    st = ctx.stats()
    out.update(paths=st["paths"], solver_queries=st["solver_queries"], solver_s=st["solver_s"], nontrivial=n >= 2)
    if n in (5, 16):
        out["sample"] = {"structure": "RangeMinQuery", "n": n, "elements": "symbolic integers a0..a%d" % (n - 1),
                         "min_model": "ite" if use_ite else "builtin (forking)", "ranges": (n + 1) ** 2, "paths": st["paths"]}
    return out


def _rmq_concrete(arr, start, stop):
    q = RMQ.RangeMinQuery(list(arr))
    res = q(start, stop)
    exp = min(arr[start:stop]) if start < stop else None
    return [] if res == exp else [f"RangeMinQuery({arr})({start},{stop}) = {res}, expected {exp}"]


def _rmq_violation(n, start, stop, vals, text):
    arr = [int(v) for v in vals]
    cf = _rmq_concrete(arr, start, stop)
    return {"kind": "rmq", "text": f"{text}: array {arr}, range [{start},{stop}): {cf}",
            "signature": {"kind": "rmq", "n": n, "start": start, "stop": stop},
            "data": {"what": "rmq", "array": arr, "start": start, "stop": stop}, "confirmed": bool(cf)}


def ilog2_item(item):
    W = 30
    out = dict(obligations=1, discharged=0, violations=[], paths=1, solver_queries=1, solver_s=0.0, nontrivial=True, item=item)
    try:
        tr = Translator(RMQ._ilog2, W, 0)
        v = z3.BitVec("value", W)
        st = tr.run({"value": v})
    except Unsupported as e:
        return {"status": "inconclusive", "reason": f"_ilog2 not encodable: {e}", "item": item}
    for k in (1, 2, 3, 4, 7, 8, 1023, 1024):
        if RMQ._ilog2(k) != eval_concrete(RMQ._ilog2, W, 0, {"value": z3.BitVecVal(k, W)}):
            return {"status": "error", "error": "translator validation failed for _ilog2", "item": item}
    one = z3.BitVecVal(1, W)
    r = st["val"]
    s = z3.Solver()
    s.add(v >= 1, v < (1 << 24), z3.Or(z3.Not(st["ret"]), r < 0, r > 24, z3.Not(z3.And((one << r) <= v, v < (one << (r + 1))))))
    res = str(s.check())
    if res == "unsat":
        out["discharged"] = 1
    elif res == "sat":
        k = s.model().eval(v, True).as_long()
        real = RMQ._ilog2(k)
        out["violations"].append({"kind": "ilog2", "text": f"_ilog2({k}) = {real}", "signature": {"kind": "ilog2", "value": k},
                                  "data": {"what": "ilog2", "value": k}, "confirmed": not ((1 << real) <= k < (1 << (real + 1)))})
    else:
        return {"status": "inconclusive", "reason": "z3 unknown on _ilog2", "item": item}
    return out


# ----------------------------------------------------------------------------- LCA (structural enumeration)
def plane_trees(n):
    """All rooted plane trees with n nodes as nested lists of children."""
    if n == 1:
        yield []
        return
    for forest in forests(n - 1):
        yield forest


def forests(n):
    if n == 0:
        yield []
        return
    for k in range(1, n + 1):
        for first in plane_trees(k):
            for rest in forests(n - k):
                yield [first] + rest


NAME_MODES = ("unique", "unnamed", "same", "leafdup")


def build(shape, names="unique"):
    """nested lists -> (ete3 tree, nodes in preorder, parent index list).
    names: unique = n<i>; unnamed = internal nodes '' (what ete3 gives unnamed Newick ancestors), leaves unique;
    same = every node 'x'; leafdup = internal nodes named like some leaf (the queries are about node identity, never names)."""
    nodes, parent = [], []
    root = Tree()

    def rec(sh, node, p):
        i = len(nodes)
        nodes.append(node)
        parent.append(p)
        if names == "unique" or (names in ("unnamed", "leafdup") and not sh):
            node.name = f"n{i}"
        elif names == "unnamed":
            node.name = ""
        elif names == "same":
            node.name = "x"
        else:
            node.name = "L"
        for c in sh:
            rec(c, node.add_child(), i)

    rec(shape, root, None)
    return root, nodes, parent


def lca_shape_fails(shape, full_triples=True, rng=None, names="unique", history=None):
    """history: None = a fresh tree; "subtrees-first" = query structures are first built on every proper subtree (sharing the node
    objects), then on the whole tree; "rebuilt-after-prune" = a structure is built, the last child clade of the root is pruned, and a
    new structure is built on the edited tree (what the class docstring prescribes after a change)."""
    root, nodes, parent = build(shape, names)
    if names == "leafdup":
        leafnames = [nd.name for nd in nodes if nd.is_leaf()]
        for k, nd in enumerate(n_ for n_ in nodes if not n_.is_leaf()):
            nd.name = leafnames[k % len(leafnames)]
    if history == "subtrees-first":
        for nd in reversed(nodes[1:]):
            LowestCommonAncestor(nd)
    elif history == "rebuilt-after-prune":
        LowestCommonAncestor(root)
        if len(root.children) >= 2:
            gone = root.children[-1]
            drop = {id(x) for x in gone.traverse()}
            gone.detach()
            keep = [i for i, nd in enumerate(nodes) if id(nd) not in drop]
            remap = {old: new for new, old in enumerate(keep)}
            nodes = [nodes[i] for i in keep]
            parent = [None if parent[i] is None else remap[parent[i]] for i in keep]
    elif history == "regrafted-in-place":
        LowestCommonAncestor(root)
        if len(root.children) >= 2:
            # the last child clade of the root is moved below the first child (same node objects, other ancestry), then a new structure is built
            moved = root.children[-1]
            target = root.children[0]
            moved.detach()
            target.add_child(moved)
            order = []

            def walk(nd):
                order.append(nd)
                for c in nd.children:
                    walk(c)

            walk(root)
            idx0 = {id(nd): i for i, nd in enumerate(order)}
            nodes = order
            parent = [None if nd.up is None else idx0[id(nd.up)] for nd in order]
    n = len(nodes)
    anc = []
    for i in range(n):
        s, j = [i], i
        while parent[j] is not None:
            j = parent[j]
            s.append(j)
        anc.append(s)
    depth = [len(a) - 1 for a in anc]

    def olca(*xs):
        common = anc[xs[0]]
        for x in xs[1:]:
            common = [y for y in common if y in anc[x]]
        return common[0]

    L = LowestCommonAncestor(root)
    fails, nq = [], 0
    idx = {id(nd): i for i, nd in enumerate(nodes)}
    for i in range(n):
        nq += 2
        if L(nodes[i]) is not nodes[i]:
            fails.append(f"lca({i}) != {i}")
        if L.level(nodes[i]) != depth[i]:
            fails.append(f"level({i}) = {L.level(nodes[i])} != {depth[i]}")
    pairs = list(itertools.product(range(n), repeat=2))
    for a, b in pairs:
        nq += 5
        l = olca(a, b)
        got = L(nodes[a], nodes[b])
        if got is not nodes[l]:
            fails.append(f"lca({a},{b}) = {idx.get(id(got))} != {l}")
        if L.is_ancestor_of(nodes[a], nodes[b]) != (a in anc[b]):
            fails.append(f"is_ancestor_of({a},{b})")
        if L.is_strict_ancestor_of(nodes[a], nodes[b]) != (a in anc[b] and a != b):
            fails.append(f"is_strict_ancestor_of({a},{b})")
        if L.is_comparable(nodes[a], nodes[b]) != (a in anc[b] or b in anc[a]):
            fails.append(f"is_comparable({a},{b})")
        if L.distance(nodes[a], nodes[b]) != depth[a] + depth[b] - 2 * depth[l]:
            fails.append(f"distance({a},{b}) = {L.distance(nodes[a], nodes[b])}")
    triples = itertools.product(range(n), repeat=3) if full_triples else [tuple(rng.randrange(n) for _ in range(3)) for _ in range(300)]
    for t in triples:
        nq += 1
        got = L(*[nodes[x] for x in t])
        if got is not nodes[olca(*t)]:
            fails.append(f"lca{t} = {idx.get(id(got))} != {olca(*t)}")
    return fails, nq


def lca_item(item):
    out = dict(obligations=0, discharged=0, violations=[], paths=1, nontrivial=len(str(item["shape"])) > 6, item=item)
    nq = 0
    for names, history in [(nm, None) for nm in item.get("names", ["unique"])] + [("unique", h) for h in item.get("histories", [])]:
        rng = random.Random(item.get("seed", 0))
        fails, k = lca_shape_fails(item["shape"], item.get("full", True), rng, names, history)
        nq += k
        out["obligations"] += k
        out["discharged"] += k - len(fails)
        if fails:
            out["violations"].append({"kind": "lca", "text": f"tree {item['shape']} (node names: {names}; history: {history or 'fresh tree'}): {fails[:4]}",
                                      "signature": {"kind": "lca", "shape": item["shape"], "names": names, "history": history},
                                      "data": {"what": "lca", "shape": item["shape"], "names": names, "history": history}, "confirmed": True})
    if item.get("sample"):
        out["sample"] = {"structure": "LowestCommonAncestor", "tree (nested child lists)": item["shape"], "queries": nq}
    return out


def big_tree_item(item):
    """Sizes far beyond the exhaustive bound (seeded): a comb of depth 700 (default recursion limit 1000) and a random tree with 40 000 nodes
    (Euler tour of ~80 000 entries), sampled queries against parent chains."""
    import sys
    rng = random.Random(item["seed"])
    out = dict(obligations=0, discharged=0, violations=[], paths=1, nontrivial=True, item=item)
    n = item["n"]
    if item["shape"] == "comb":
        parent = [None] + [i - 1 if i % 2 else i - 2 for i in range(1, n)]      # a spine with one leaf hanging off every spine node
        parent = [None] + [max(0, (i - 1) // 2 * 2) if i % 2 == 0 else ((i - 1) // 2 * 2) for i in range(1, n)]
    else:
        parent = [None] + [rng.randrange(max(0, i - 50), i) if rng.random() < 0.5 else rng.randrange(i) for i in range(1, n)]
    nodes = [Tree() for _ in range(n)]
    for i, nd in enumerate(nodes):
        nd.name = f"n{i}"
    for i in range(1, n):
        nodes[parent[i]].add_child(nodes[i])
    depth = [0] * n
    for i in range(1, n):
        depth[i] = depth[parent[i]] + 1
    try:
        L = LowestCommonAncestor(nodes[0])
    except Exception as e:
        out["obligations"] = 1
        out["violations"].append({"kind": "lca-big", "text": f"building the structure on a {item['shape']} tree with {n} nodes (depth {max(depth)}) raises {type(e).__name__}",
                                  "signature": {"kind": "lca-big", "shape": item["shape"], "n": n}, "data": {"what": "lca-big", "item": item}, "confirmed": True})
        return out

    def olca(a, b):
        while a != b:
            if depth[a] < depth[b]:
                a, b = b, a
            a = parent[a]
        return a

    fails = []
    for _ in range(item["queries"]):
        a, b = rng.randrange(n), rng.randrange(n)
        if rng.random() < 0.5:
            a, b = max(a, n - 1 - rng.randrange(min(n, 2000))), b       # favour late tour positions
        l = olca(a, b)
        out["obligations"] += 3
        got = L(nodes[a], nodes[b])
        if got is not nodes[l]:
            fails.append(f"lca({a},{b}) = {got.name} != n{l}")
        if L.distance(nodes[a], nodes[b]) != depth[a] + depth[b] - 2 * depth[l]:
            fails.append(f"distance({a},{b})")
        if L.is_ancestor_of(nodes[a], nodes[b]) != (l == a):
            fails.append(f"is_ancestor_of({a},{b})")
        if len(fails) > 3:
            break
    out["discharged"] = out["obligations"] - len(fails)
    if fails:
        out["violations"].append({"kind": "lca-big", "text": f"{item['shape']} tree with {n} nodes: {fails[:4]}",
                                  "signature": {"kind": "lca-big", "shape": item["shape"], "n": n}, "data": {"what": "lca-big", "item": item}, "confirmed": True})
    return out


def random_shape(rng, n):
    parent = [None] + [rng.randrange(i) for i in range(1, n)]
    ch = [[] for _ in range(n)]
    for i in range(1, n):
        ch[parent[i]].append(i)

    def rec(i):
        return [rec(c) for c in ch[i]]

    return rec(0)


def worker(item):
    if item["kind"] == "rmq":
        return rmq_item(item)
    if item["kind"] == "ilog2":
        return ilog2_item(item)
    if item["kind"] == "lca-big":
        return big_tree_item(item)
    return lca_item(item)


def replay(data):
    if data["what"] == "rmq":
        cf = _rmq_concrete(data["array"], data["start"], data["stop"])
    elif data["what"] == "ilog2":
        r = RMQ._ilog2(data["value"])
        cf = [] if (1 << r) <= data["value"] < (1 << (r + 1)) else [f"_ilog2({data['value']}) = {r}"]
    elif data["what"] == "lca-big":
        cf = [v["text"] for v in big_tree_item(data["item"])["violations"]]
    else:
        cf, _ = lca_shape_fails(data["shape"], names=data.get("names", "unique"), history=data.get("history"))
    for t in cf[:5]:
        print("  reproduced:", t)
    return bool(cf)


def main(argv=None):
    tier, seed = R.tier_and_seed(argv)
    rep = R.Report(PROP, tier, seed)
    rng = random.Random(seed)
    if tier == "quick":
        n_fork, n_ite, nodes, nrand = 5, 24, 7, 60
    else:
        n_fork, n_ite, nodes, nrand = 6, 40, 8, 400
    items = [{"kind": "rmq", "n": n, "ite": False} for n in range(1, n_fork + 1)]
    items += [{"kind": "rmq", "n": n, "ite": True} for n in range(1, n_ite + 1)]
    items += [{"kind": "ilog2"}]
    items.sort(key=lambda it: -it.get("n", 0))
    res, sk = R.run_sharded(worker, items, 3000)
    rep.add_results("range-minimum (solver)", res, sk, exhaustive=True)
    shapes = [{"kind": "lca", "shape": s, "sample": (k == 5 and i == 3), "names": list(NAME_MODES),
               "histories": ["subtrees-first", "rebuilt-after-prune", "regrafted-in-place"]} for k in range(1, nodes + 1) for i, s in enumerate(plane_trees(k))]
    res, sk = R.run_sharded(worker, shapes, 3000)
    rep.add_results("ancestry (exhaustive structural enumeration)", res, sk, exhaustive=True)
    rnd = [{"kind": "lca", "shape": random_shape(rng, rng.randint(8, 40)), "full": False, "seed": rng.randrange(10 ** 6),
            "names": ["unique", rng.choice(NAME_MODES[1:])], "histories": ["subtrees-first", "rebuilt-after-prune", "regrafted-in-place"]} for _ in range(nrand)]
    res, sk = R.run_sharded(worker, rnd, 3000)
    rep.add_results("ancestry (seeded larger trees, sampled triples)", res, sk, exhaustive=False)
    bigs = [{"kind": "lca-big", "shape": "comb", "n": 1401, "queries": 400, "seed": seed}, {"kind": "lca-big", "shape": "random", "n": 40000, "queries": 3000, "seed": seed + 1}]
    res, sk = R.run_sharded(worker, bigs, 3000)
    rep.add_results("ancestry on large trees (seeded: comb of depth 700, random tree with 40 000 nodes; sampled queries)", res, sk, exhaustive=False)
    import superrec2.utils.trees as T
    rep.functions = R.safe_digest(lambda: R.source_digest(RMQ.RangeMinQuery.__init__, RMQ.RangeMinQuery.__call__, RMQ._ilog2, T._euler_tour,
                                    T.LowestCommonAncestor.__init__, T.LowestCommonAncestor.__call__, T.LowestCommonAncestor.is_ancestor_of,
                                    T.LowestCommonAncestor.is_strict_ancestor_of, T.LowestCommonAncestor.is_comparable,
                                    T.LowestCommonAncestor.level, T.LowestCommonAncestor.distance))
    rep.bounds = {"range-minimum": f"array length 1..{n_ite}, elements = unconstrained symbolic integers, every (start, stop) in [0,n]^2 "
                                   f"(empty and reversed ranges included); lengths 1..{n_fork} additionally with the real builtin min",
                  "_ilog2": "every value in [1, 2^24)",
                  "ancestry": f"every rooted plane tree of any arity with <= {nodes} nodes, every node, pair and triple, under four naming schemes (unique names; "
                              f"unnamed ancestors; one shared name; ancestors named like leaves - the queries are about node identity) and after two construction "
                              f"histories (structures built on every proper subtree first; structure rebuilt after pruning a clade; rebuilt after a clade was moved in place); "
                              f"{nrand} seeded trees with 8-40 nodes (all pairs, 300 sampled triples)"}
    rep.stubs = ["range_min_query.min -> ite model of the builtin (left-biased min(a,b) = ite(b<a, b, a)) for n > %d" % n_fork]
    rep.assumptions = ["the ancestry sub-claim has no numeric dimension: it is decided by exhaustive enumeration of the stated finite space, not by the solver"]
    rep.outside = ["arrays longer than the bound", "trees with more nodes than the bound (except the seeded sample)", "negative or out-of-range indices"]
    return rep.finish(
        explanation="RangeMinQuery runs on symbolic integer elements; for every range z3 proves the result is the minimum of exactly that slice "
                    "for all array contents. _ilog2 is translated to bit-vectors and proven against 2^r <= v < 2^(r+1). The ancestry queries are "
                    "compared with parent-chain definitions on every tree shape, pair and triple in the bound (exhaustive enumeration).",
        rule="one evaluation = one array length (all contents, all ranges) or one tree shape (all node pairs and triples); non-trivial = length/size >= 2")


if __name__ == "__main__":
    sys.exit(main())
