"""C01 - general DTL solver (thl) and exhaustive solver return a minimum-cost reconciliation.

Engine A: the four unit costs are symbolic non-negative integers (coherent region
spe <= dup + 2*floss); every feasible cost ordering of the real optimiser is explored per
structural input, and on each path z3 proves  cost(returned) <= cost(r)  for every valid
reconciliation r of the independent oracle.  generate_all (cost independent) is compared with
the oracle's valid set.
"""
import random
import sys

from infinity import inf

from engine import harness as H
from engine import runner as R
from engine.forksym import Inconclusive
from checks import dp_common as D

PROP = "C01"


# ----------------------------------------------------------------------------- concrete re-check
def concrete_failures(desc, algo, policy, costs):
    """Run the real algorithm with plain numbers; list of (kind, text) failures."""
    case = H.Case(desc)
    orc = D.Oracle(case)
    inp = case.build(costs)
    fails = []
    try:
        res = D.run_algo(algo, inp, policy)
    except Exception as e:
        return [("exception", f"{type(e).__name__}: {e}")]
    if not res:
        return [("empty", "no reconciliation returned although the LCA mapping is valid")]
    best = min(H.form_value(costs, f) for f in orc.plain_forms())
    for out in res:
        cnt, why = orc.recount(out)
        if cnt is None:
            fails.append(("invalid", why))
            continue
        v = H.form_value(costs, cnt)
        if v is inf and best is not inf:
            fails.append(("infinite", "returned reconciliation has infinite cost"))
        elif v > best:
            fails.append(("suboptimal", f"returned cost {v} > optimum {best} "
                          f"({case.mapping_names(case.mapping_of(out))})"))
    return fails


def replay(data):
    if "rel" in data:
        from checks import c10
        return c10.replay(data)
    if "flags" in data:
        from checks import sr_common as SR
        return SR.replay(data)
    fails = concrete_failures(data["desc"], data["algo"], data["policy"], H.cost_unjson(data["costs"]))
    for k, t in fails:
        print(f"  reproduced: {k}: {t}")
    return any(k == data.get("expect") for k, _ in fails) if data.get("expect") else bool(fails)


def _violation(kind, text, desc, algo, policy, costs_conc, hgt_mode):
    data = {"desc": desc, "algo": algo, "policy": policy, "costs": H.cost_json(costs_conc), "expect": kind}
    confirmed = any(k == kind for k, _ in concrete_failures(desc, algo, policy, costs_conc))
    return {
        "kind": kind, "text": f"{algo}/{policy} hgt={hgt_mode}: {text}; input {desc}; costs {H.cost_json(costs_conc)}",
        "signature": {"kind": kind, "algo": algo, "desc": desc, "hgt": hgt_mode},
        "data": data, "confirmed": confirmed,
    }


# ----------------------------------------------------------------------------- symbolic worker
def explore(desc, algo, policy, hgt_mode, max_paths, budget_s):
    case = H.Case(desc)
    orc = D.Oracle(case)
    forms = orc.plain_forms()
    sym = ["spe", "dup", "hgt", "floss"] if hgt_mode == "sym" else ["spe", "dup", "floss"]
    ctx, costs = H.cost_ctx(sym, fixed={"hgt": inf, "sloss": 1}, with_sloss=False,
                            max_paths=max_paths, budget_s=budget_s)
    inp = case.build(costs)
    out = dict(paths=0, obligations=0, discharged=0, violations=[], sample=None)
    for _ in ctx.paths():
        try:
            res = D.run_algo(algo, inp, policy)
        except Exception as e:
            cc = H.concrete_costs(costs, ctx.model_values())
            out["violations"].append(_violation("exception", f"{type(e).__name__}: {e}", desc, algo, policy, cc, hgt_mode))
            out["obligations"] += 1
            continue
        out["obligations"] += 1   # "no failure, non-empty"
        if not res:
            cc = H.concrete_costs(costs, ctx.model_values())
            out["violations"].append(_violation("empty", "nothing returned", desc, algo, policy, cc, hgt_mode))
            continue
        out["discharged"] += 1
        seen_forms = set()
        for o in res:
            cnt, why = orc.recount(o)
            out["obligations"] += 1
            if cnt is None:
                cc = H.concrete_costs(costs, ctx.model_values())
                out["violations"].append(_violation("invalid", why, desc, algo, policy, cc, hgt_mode))
                continue
            out["discharged"] += 1
            if cnt in seen_forms:
                continue
            seen_forms.add(cnt)
            out["obligations"] += 1
            ok, model, _n = D.prove_le_all(ctx, costs, cnt, forms)
            if ok:
                out["discharged"] += 1
            else:
                cc = H.concrete_costs(costs, model)
                kind = "infinite" if H.form_value(cc, cnt) is inf else "suboptimal"
                out["violations"].append(_violation(
                    kind, f"returned count vector {cnt} is not minimal", desc, algo, policy, cc, hgt_mode))
        if out["sample"] is None and ctx.npaths >= 2:
            out["sample"] = {"input": desc, "algo": algo, "policy": policy, "hgt": hgt_mode,
                             "path_condition": ctx.pc_text(), "returned_counts(spe,dup,hgt,floss)": sorted(seen_forms),
                             "oracle_forms": len(forms)}
        if len(out["violations"]) >= 3:
            break
    st = ctx.stats()
    out["paths"] = st["paths"]
    out["solver_queries"] = st["solver_queries"]
    out["solver_s"] = st["solver_s"]
    out["forks"] = st["forks"]
    return out


def check_generate_all(desc):
    """generate_all is cost independent: compare its valid outputs with the oracle set."""
    case = H.Case(desc)
    orc = D.Oracle(case)
    inp = case.build({"spe": 0, "dup": 1, "hgt": 1, "floss": 1, "sloss": 1})
    out = dict(obligations=3, discharged=0, violations=[])
    try:
        gen = list(D.generate_all(inp))
    except Exception as e:
        out["violations"].append({"kind": "genall-exception", "text": f"generate_all raised {type(e).__name__}: {e} on {desc}",
                                  "signature": {"kind": "genall-exception", "desc": desc},
                                  "data": {"desc": desc, "genall": True}, "confirmed": True})
        return out
    keys = []
    for o in gen:
        m = case.mapping_of(o)
        keys.append(tuple(sorted(m.items())))
    valid = [k for k in keys if k in orc.by_mapping]
    problems = []
    if len(valid) != len(set(valid)):
        problems.append("a valid reconciliation is yielded more than once")
    else:
        out["discharged"] += 1
    if set(valid) != set(orc.by_mapping):
        problems.append(f"{len(set(orc.by_mapping) - set(valid))} valid reconciliation(s) are never yielded")
    else:
        out["discharged"] += 1
    if len(valid) != len(keys):
        problems.append(f"{len(keys) - len(valid)} invalid mapping(s) are yielded")
    else:
        out["discharged"] += 1
    for p in problems:
        out["violations"].append({"kind": "genall", "text": f"generate_all: {p}; input {desc}",
                                  "signature": {"kind": "genall", "problem": p.split(" ")[0:3], "desc": desc},
                                  "data": {"desc": desc, "genall": True}, "confirmed": True})
    return out


def worker(item):
    desc = item["desc"]
    tot = dict(paths=0, obligations=0, discharged=0, solver_queries=0, solver_s=0.0, violations=[], sample=None, forks=0)
    try:
        g = check_generate_all(desc)
        tot["obligations"] += g["obligations"]
        tot["discharged"] += g["discharged"]
        tot["violations"] += g["violations"]
        for hgt_mode in ("sym", "inf"):
            for algo in item["algos"]:
                for policy in ("any", "all"):
                    r = explore(desc, algo, policy, hgt_mode, item["max_paths"], item["budget_s"])
                    for k in ("paths", "obligations", "discharged", "solver_queries", "solver_s", "forks"):
                        tot[k] += r[k]
                    tot["violations"] += r["violations"]
                    if tot["sample"] is None:
                        tot["sample"] = r["sample"]
    except Inconclusive as e:
        tot["status"] = "inconclusive"
        tot["reason"] = str(e)
    tot["nontrivial"] = tot["forks"] > 0
    tot["item"] = desc
    return tot


def inputs(tier, seed):
    rng = random.Random(seed)
    if tier == "quick":
        exhaustive = list(D.plain_inputs(range(1, 4), range(1, 4)))
        sample = [D.random_plain_input(rng, 4, rng.randint(2, 4)) for _ in range(150)] + [D.random_plain_input(rng, 5, rng.randint(3, 5)) for _ in range(12)]
        bounds = {"exhaustive": "object leaves 1-3 x species leaves 1-3, every plane shape, every leaf assignment",
                  "sampled": "150 seeded inputs with 4 object leaves, 2-4 species leaves; 12 seeded inputs with 5 object leaves, 3-5 species leaves"}
    else:
        exhaustive = list(D.plain_inputs(range(1, 5), range(1, 5)))
        sample = [D.random_plain_input(rng, 5, rng.randint(2, 6)) for _ in range(200)]
        bounds = {"exhaustive": "object leaves 1-4 x species leaves 1-4, every plane shape, every leaf assignment",
                  "sampled": "200 seeded inputs with 5 object leaves, 2-6 species leaves"}
    return exhaustive, sample, bounds


def main(argv=None):
    tier, seed = R.tier_and_seed(argv)
    rep = R.Report(PROP, tier, seed)
    exhaustive, sample, bounds = inputs(tier, seed)
    rng2 = random.Random(seed + 7919)
    mp, bs = (4000, 120.0) if tier == "quick" else (20000, 600.0)
    budget = 150 if tier == "quick" else 3000
    mk = lambda d, algos: {"desc": d, "algos": algos, "max_paths": mp, "budget_s": bs}
    res, skipped = R.run_sharded(worker, [mk(d, ["thl", "exh"]) for d in exhaustive], budget)
    rep.add_results("exhaustive-small", res, skipped, exhaustive=True)
    res, skipped = R.run_sharded(worker, [mk(d, ["thl", "exh"]) for d in sample], budget)
    rep.add_results("sampled-larger", res, skipped, exhaustive=False)
    from checks import sr_common as SR
    # deep species trees (caterpillars with 5-7 leaves): long loss chains; dup, hgt symbolic with spe = 0, floss = 1 keeps each input cheap
    nd = 300 if tier == "quick" else 3000
    deep = [D.random_deep_input(rng2, rng2.randint(3, 5 if tier == "quick" else 6), rng2.randint(5, 6 if tier == "quick" else 7)) for _ in range(nd)]
    flags = {"opt", "valid", "empty"}
    res, skipped = R.run_sharded(SR.generic_worker, [{"prop": PROP, "desc": d, "runs": SR.runs_for(["thl", "exh"], ["any"], flags, "dhs"),
                                                      "max_paths": mp, "budget_s": bs} for d in deep], budget)
    rep.add_results("deep species trees (dup, hgt symbolic; spe = 0, floss = 1)", res, skipped, exhaustive=False)
    sim = SR.simulated_inputs(rng2, 100 if tier == "quick" else 1500, 5 if tier == "quick" else 6, 6, 0, False)
    res, skipped = R.run_sharded(SR.generic_worker, [{"prop": PROP, "desc": d, "runs": SR.runs_for(["thl", "exh"], ["any"], flags, "dhs"),
                                                      "max_paths": mp, "budget_s": bs} for d in sim], budget)
    rep.add_results("inputs simulated forward from the event model (dup, hgt symbolic; spe = 0, floss = 1)", res, skipped, exhaustive=False)
    hist = [D.random_plain_input(rng2, rng2.randint(3, 4), rng2.randint(2, 4)) for _ in range(8 if tier == "quick" else 60)]
    res, skipped = R.run_sharded(SR.generic_worker, [{"prop": PROP, "desc": d, "runs": SR.history_runs(["thl", "exh"], flags),
                                                      "max_paths": mp, "budget_s": bs} for d in hist], budget)
    rep.add_results("call history: the same solver called earlier in the same interpreter, then explored with four symbolic costs", res, skipped, exhaustive=False)
    # beyond the oracle's reach: both solvers claim the minimum, so their minima must be equal on every path (6-7 object leaves, deep species trees)
    from checks import c10
    nx = 16 if tier == "quick" else 200
    cross = [D.random_deep_input(rng2, rng2.randint(6, 6 if tier == "quick" else 7), rng2.randint(5, 7)) for _ in range(nx)]
    res, skipped = R.run_sharded(c10.worker, [{"desc": d, "sym": ["dup", "hgt"], "fixed": {"spe": 0, "floss": 1}, "relations": [("thl", "exh", "eq")],
                                               "max_paths": mp, "budget_s": bs} for d in cross], budget)
    rep.add_results("thl and exh agree on 6-7-leaf inputs (no oracle; dup, hgt symbolic)", res, skipped, exhaustive=False)
    huge = [D.random_plain_input(rng2, rng2.randint(2, 4), rng2.randint(2, 4)) for _ in range(40 if tier == "quick" else 400)]
    res, skipped = R.run_sharded(SR.huge_cost_worker, [{"desc": d, "algos": ["thl", "exh"], "policies": ["any", "all"], "flags": sorted(flags | {"allset"})} for d in huge], budget)
    rep.add_results("13-16-digit integer cost vectors (concrete companion: exact integer arithmetic, no float round trip)", res, skipped, exhaustive=False)
    rep.add_results("F-COHERENCE witness (outside the coherent region; concrete replay only)", [SR.coherence_witness_result(PROP)], 0, exhaustive=None)
    import superrec2.compute.reconciliation as m1, superrec2.compute.exhaustive as m2
    import superrec2.utils.dynamic_programming as m3, superrec2.model.reconciliation as m4
    rep.functions = R.safe_digest(lambda: R.source_digest(
        m1.reconcile_thl, m1._compute_thl_table, m1._compute_thl_try_speciation,
        m1._compute_thl_try_duplication_transfer, m1._decode_thl_table, m2.generate_all,
        m2.reconcile_exhaustive, m3.Entry.update, m3.Entry.combine, m3.EntryProxy, m3.TableProxy,
        m4.ReconciliationOutput.node_event, m4.ReconciliationOutput._cost_rec))
    bounds["deep"] = (f"{nd} seeded inputs with 3-{5 if tier == 'quick' else 6} object leaves on species trees with 5-{6 if tier == 'quick' else 7} leaves, 70% caterpillars "
                      "(dup, hgt symbolic; spe = 0, floss = 1; thl + exh, any)")
    bounds["simulated"] = f"{len(sim)} inputs obtained by simulating speciation / duplication / transfer / loss forward along a seeded species tree (3-{5 if tier == 'quick' else 6} leaves)"
    bounds["cross-check"] = f"{nx} seeded 6-7-leaf inputs on deep species trees: min(thl) = min(exh) proven per path (dup, hgt symbolic)"
    bounds["call history"] = f"{len(hist)} seeded 3-4-leaf inputs explored after earlier concrete calls of the same solver in a fresh interpreter"
    rep.bounds = dict(bounds, costs="spe, dup, hgt, floss: all non-negative integers with spe <= dup + 2*floss (no upper bound); "
                      "second run with hgt = infinity.inf", policies="any, all", per_input_path_cap=mp)
    rep.assumptions = ["oracle (engine/oracles/recon.py) is the documented event model",
                       "z3 linear integer arithmetic", "CPython operator dispatch on engine.forksym.Lin"]
    rep.stubs = H.STUBS
    rep.outside = ["cost vectors outside spe <= dup + 2*floss (F-COHERENCE)", "trees beyond the stated sizes",
                   "non-integer or negative costs"]
    rep.exhaustive = False
    code = rep.finish(
        explanation="Bounded symbolic verification: the real reconcile_thl / reconcile_exhaustive run on affine symbolic costs; "
                    "every feasible ordering of the cost comparisons is explored (work-list of path conditions) and on every "
                    "path z3 proves the returned reconciliation no dearer than every valid reconciliation of an independent "
                    "enumerator, for all cost vectors in the region. Counterexamples are replayed with plain ints.",
        rule="one evaluation = one structural input (object shape, species shape, leaf assignment) explored for thl+exh, any+all, "
             "finite symbolic hgt and hgt=inf; non-trivial = the exploration forked at least once on a cost comparison")
    return code


if __name__ == "__main__":
    sys.exit(main())
