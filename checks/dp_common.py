"""Shared machinery of the optimiser checks (C01-C05, C07-C10): algorithms, oracle forms, concrete re-check."""
import random

from infinity import inf

from engine import harness as H
from engine.forksym import Inconclusive, Lin
from engine.oracles import labels as LB
from engine.oracles import recon as RC
from engine.oracles.trees import plane_shapes, random_plane_tree

from superrec2.compute.exhaustive import reconcile_exhaustive, generate_all
from superrec2.compute.reconciliation import reconcile_lca, reconcile_thl
from superrec2.compute.super_reconciliation import sreconcile_base_spfs, sreconcile_extended_spfs
from superrec2.compute.unordered_super_reconciliation import (
    usreconcile_base_uspfs,
    usreconcile_extended_uspfs,
)
from superrec2.utils.dynamic_programming import RetentionPolicy

ALGOS = {
    "thl": reconcile_thl,
    "exh": reconcile_exhaustive,
    "lca": reconcile_lca,
    "base_spfs": sreconcile_base_spfs,
    "ext_spfs": sreconcile_extended_spfs,
    "base_uspfs": usreconcile_base_uspfs,
    "superdtl": usreconcile_extended_uspfs,
}
ORDERED = {"base_spfs": True, "ext_spfs": True, "base_uspfs": False, "superdtl": False}
POLICY = {"any": RetentionPolicy.ANY, "all": RetentionPolicy.ALL}

SP_NAMES = "ABCDEFGH"


def run_algo(algo, inp, policy):
    with H.quiet():
        if algo == "lca":
            return [reconcile_lca(inp)]
        return list(ALGOS[algo](inp, POLICY[policy]))


# ----------------------------------------------------------------------------- input spaces
def plain_inputs(no_range, ns_range):
    """Every (plane object shape, plane species shape, leaf assignment)."""
    for no in no_range:
        ol = [f"g{i}" for i in range(no)]
        for ns in ns_range:
            sl = [SP_NAMES[i] for i in range(ns)]
            for ot in plane_shapes(ol):
                for st in plane_shapes(sl):
                    for assign in _product(sl, no):
                        yield {"ot": ot, "st": st, "leafmap": dict(zip(ol, assign))}


def _product(vals, n):
    import itertools
    return itertools.product(vals, repeat=n)


def random_plain_input(rng, no, ns, variants=True):
    ol = [f"g{i}" for i in range(no)]
    sl = [SP_NAMES[i] for i in range(ns)]
    d = {"ot": random_plane_tree(rng, ol), "st": random_plane_tree(rng, sl),
         "leafmap": {g: rng.choice(sl) for g in ol}}
    return presentation_variants(d, rng) if variants else d


def presentation_variants(d, rng):
    """Presentation choices that must not matter, applied LAST (after every structural edit of the descriptor)."""
    if rng.random() < 0.25:
        d["brlen"] = rng.randrange(1, 1000)     # a quarter of the seeded inputs carry branch lengths in both Newick strings
    r = rng.random()
    if r < 0.1 and len(_leafnames(d["st"])) >= 2:
        d = alias_leaves(d, rng)
    elif r < 0.2 and len(_leafnames(d["st"])) >= 2:
        d = case_species(d, rng)
    if d.get("leafsyn") and rng.random() < 0.15:
        d = rename_families(d, rng)
    if rng.random() < 0.2:
        d["ctor"] = rng.randrange(1, 1000)      # built through the constructor: shuffled mapping keys, defaultdict container
    return d


def rename_families(d, rng):
    """Realistic family names: digit-leading next to letter-leading ones, numeric suffixes, names equal up to case."""
    fams = sorted(set(g for v in d["leafsyn"].values() for g in v) | set(d.get("rootsyn") or []))
    pool = ["16S", "trnI", "23S", "5S", "cas10", "Cas10", "cas2", "I-B", "x9", "x10"]
    if len(fams) > len(pool):
        return d
    mp = dict(zip(fams, rng.sample(pool, len(fams))))
    d = dict(d, leafsyn={l: [mp[g] for g in v] for l, v in d["leafsyn"].items()})
    if d.get("rootsyn"):
        d["rootsyn"] = [mp[g] for g in d["rootsyn"]]
    d.pop("synstr", None)
    return d


def _rename(t, mp):
    return mp.get(t, t) if isinstance(t, str) else tuple(_rename(c, mp) for c in t)


def alias_leaves(d, rng):
    """Object leaves named `<species>_<k>` after a species OTHER than the one the explicit leaf assignment gives them
    (the explicit assignment is what counts; names are only a fallback when no assignment is given)."""
    species = sorted(set(d["leafmap"].values()) | set(_leafnames(d["st"])))
    mp = {}
    for k, l in enumerate(sorted(d["leafmap"])):
        others = [s for s in species if s != d["leafmap"][l]] or species
        mp[l] = f"{rng.choice(others)}_{k}"
    out = dict(d, ot=_rename(H.totuple(d["ot"]), mp), leafmap={mp[l]: s for l, s in d["leafmap"].items()})
    if d.get("leafsyn"):
        out["leafsyn"] = {mp.get(l, l): v for l, v in d["leafsyn"].items()}
    return out


def case_species(d, rng):
    """Two species whose names differ only by letter case (k12 / K12): names are case-sensitive identifiers."""
    sl = _leafnames(d["st"])
    if len(sl) < 2:
        return d
    x, y = rng.sample(sl, 2)
    mp = {y: x.lower() if x.lower() != x else x.upper()}
    return dict(d, st=_rename(H.totuple(d["st"]), mp), leafmap={l: mp.get(s, s) for l, s in d["leafmap"].items()})


def _leafnames(t):
    return [t] if isinstance(t, str) else [l for c in t for l in _leafnames(c)]


def caterpillar(leaves, left=True):
    t = leaves[0]
    for l in leaves[1:]:
        t = (t, l) if left else (l, t)
    return t


def random_deep_input(rng, no, ns, cat_p=0.7):
    """Plain input whose species tree is (with probability cat_p) a caterpillar: the deepest shape for its size."""
    d = random_plain_input(rng, no, ns, variants=False)
    r = rng.random()
    sl = [SP_NAMES[i] for i in range(ns)]
    if r < cat_p * 0.6 or ns < 4:
        d["st"] = caterpillar(sl, rng.random() < 0.5)
    elif r < cat_p:
        k = rng.randint(2, ns - 2)       # two deep halves
        d["st"] = (caterpillar(sl[:k], rng.random() < 0.5), caterpillar(sl[k:], rng.random() < 0.5))
    if rng.random() < 0.3:
        d["ot"] = caterpillar([f"g{i}" for i in range(no)], rng.random() < 0.5)
    return presentation_variants(d, rng)


def simulated_input(rng, no_max, ns, nf=0, ordered=False, p_dup=0.25, p_hgt=0.2, p_loss=0.12, p_seg=0.3, p_gain=0.25, st=None):
    """Input obtained by SIMULATING the documented event model forward in time: a lineage starts at the species root and speciates,
    duplicates, is transferred to an incomparable species or is lost; syntenies lose a random segment along branches and gain new
    families at internal nodes.  Optimal reconciliations of such inputs contain every event kind, ties and losses across gene-less
    species far more often than with independently drawn leaf data.  Returns None if no tree with 2..no_max leaves came out."""
    from engine.oracles.trees import OTree
    sl = [SP_NAMES[i] for i in range(ns)]
    st = st if st is not None else random_plane_tree(rng, sl)
    S = OTree(st, "s")
    fams = [chr(ord("a") + i) for i in range(nf)]
    for _attempt in range(60):
        leaves, leafmap, leafsyn = [], {}, {}
        unused = list(fams)
        rng.shuffle(unused)
        budget = [3 * no_max]

        def mutate(syn):
            syn = list(syn)
            if nf and syn and rng.random() < p_seg and len(syn) > 1:
                i = rng.randrange(len(syn))
                j = rng.randint(i + 1, min(len(syn), i + 2))
                if j - i < len(syn):
                    del syn[i:j]
            if nf and unused and rng.random() < p_gain:
                syn.insert(rng.randrange(len(syn) + 1), unused.pop())
            return syn

        def evolve(s, syn):
            budget[0] -= 1
            if budget[0] < 0:
                return None
            r = rng.random()
            others = [t for t in range(S.n) if not S.comparable(s, t)]
            if r < p_dup:
                parts = [evolve(s, mutate(syn)), evolve(s, mutate(syn))]
            elif r < p_dup + p_hgt and others:
                parts = [evolve(s, mutate(syn)), evolve(rng.choice(others), mutate(syn))]
            elif r < p_dup + p_hgt + p_loss:
                return None
            elif not S.children[s]:
                name = f"g{len(leaves)}"
                leaves.append(name)
                leafmap[name] = S.name[s]
                leafsyn[name] = list(syn)
                return name
            else:
                parts = [evolve(c, mutate(syn)) for c in S.children[s]]
            parts = [p for p in parts if p is not None]
            if not parts:
                return None
            return parts[0] if len(parts) == 1 else tuple(parts)

        root_syn = [unused.pop() for _ in range(max(1, nf // 2))] if nf else []
        t = evolve(0, root_syn)
        if t is None or isinstance(t, str) or not (2 <= len(leaves) <= no_max):
            continue
        if nf and any(not v for v in leafsyn.values()):
            continue
        d = {"ot": t, "st": st, "leafmap": leafmap}
        if nf:
            d["leafsyn"] = leafsyn if ordered else {k: sorted(v) for k, v in leafsyn.items()}
        return d
    return None


def random_syntenies(rng, leaves, fams, ordered, consistent_p=0.8):
    fams = list(fams)
    out = {}
    base = list(fams)
    rng.shuffle(base)
    for l in leaves:
        k = rng.randint(1, len(fams))
        if ordered:
            src = base if rng.random() < consistent_p else rng.sample(fams, len(fams))
            chosen = set(rng.sample(fams, k))
            out[l] = [g for g in src if g in chosen]
        else:
            out[l] = sorted(rng.sample(fams, k))
    return out


# ----------------------------------------------------------------------------- oracle side
class Oracle:
    """All valid reconciliations of a case, with count vectors; labelled variants on demand."""

    def __init__(self, case, restrict_lca=False):
        self.case = case
        self.recs = list(RC.enumerate_recs(case.O, case.S, case.leafmap))
        if restrict_lca:
            lm = RC.lca_mapping(case.O, case.S, case.leafmap)
            self.recs = [r for r in self.recs if r[0] == lm]
        self.by_mapping = {tuple(sorted(r[0].items())): r for r in self.recs}
        self._min_sloss = {}

    def lookup(self, m):
        return self.by_mapping.get(tuple(sorted(m.items())))

    def plain_forms(self):
        return sorted(set(r[1] for r in self.recs))

    def min_sloss(self, ev, kept, ordered):
        key = (tuple(sorted(ev.items())), tuple(sorted(kept.items())), ordered)
        if key not in self._min_sloss:
            c = self.case
            if ordered:
                v = LB.ordered_min_sloss(c.O, ev, kept, c.leafsyn, c.rootsyn)
            else:
                v = None
                for syn, _ in LB.unordered_labellings(c.O, c.leafsyn):
                    n = LB.unordered_sloss(c.O, ev, kept, syn)
                    if v is None or n < v:
                        v = n
            self._min_sloss[key] = v
        return self._min_sloss[key]

    def labelled_forms(self, ordered):
        """Set of 5-vectors: for each valid mapping, the best labelling's count."""
        forms = set()
        for m, cnt, ev, kept in self.recs:
            s = self.min_sloss(ev, kept, ordered)
            if s is not None:
                forms.add(cnt + (s,))
        return sorted(forms)

    def recount(self, out, ordered=None):
        return recount_case(self.case, out, ordered)


def recount_case(c, out, ordered=None):
    """Oracle count vector of a returned solution w.r.t. case c; (None, reason) if invalid."""
    m = c.mapping_of(out)
    if set(m) != set(range(c.O.n)):
        return None, "not every object node is mapped"
    for i in c.O.leaves:
        if m[i] != c.S.by_name[c.leafmap[c.O.name[i]]]:
            return None, f"leaf {c.O.name[i]} moved to another species"
    res = RC.evaluate(c.O, c.S, m)
    if res is None:
        return None, "an internal node carries an invalid event"
    cnt, ev, kept = res
    if ordered is None:
        return cnt, None
    syn = c.syn_of(out)
    if set(syn) != set(range(c.O.n)):
        return None, "not every object node is labelled"
    for i in c.O.leaves:
        if list(syn[i]) != list(c.leafsyn[c.O.name[i]]) and not (
            not ordered and sorted(syn[i]) == sorted(c.leafsyn[c.O.name[i]])
        ):
            return None, f"leaf synteny of {c.O.name[i]} differs from the input"
    if ordered:
        fams = set(g for s in c.leafsyn.values() for g in s)
        want_root = sorted(c.rootsyn) if c.rootsyn is not None else sorted(fams)     # a prescribed root may hold families no leaf carries
        if c.O.children[0] and (sorted(syn[0]) != want_root or len(syn[0]) != len(want_root)):
            return None, "root does not hold every family exactly once"
        if c.rootsyn is not None and list(syn[0]) != list(c.rootsyn):
            return None, "root order differs from the prescribed one"
        n = LB.ordered_sloss(c.O, ev, kept, syn)
        if n is None:
            return None, "a child synteny is not a subsequence of its parent's"
    else:
        bad = LB.unordered_valid(c.O, c.leafsyn, {i: frozenset(s) for i, s in syn.items()})
        if bad:
            return None, bad
        n = LB.unordered_sloss(c.O, ev, kept, {i: frozenset(s) for i, s in syn.items()})
    return cnt + (n,), None




def is_binary_tuple(t):
    return isinstance(t, str) or (len(t) == 2 and all(is_binary_tuple(c) for c in t))


def ete_to_tuple(node):
    """ete3 tree -> (nested tuple, {preorder index: name})."""
    names = {}
    counter = [0]

    def rec(n):
        i = counter[0]
        counter[0] += 1
        if n.is_leaf():
            return n.name
        names[i] = n.name
        return tuple(rec(c) for c in n.children)

    t = rec(node)
    return t, names


def case_from_output(out, base_case):
    """A Case describing the (binary, relabelled) input an output refers to."""
    ot, on = ete_to_tuple(out.input.object_tree)
    st, sn = ete_to_tuple(out.input.species_lca.tree)
    c = H.Case.__new__(H.Case)
    c.desc = base_case.desc
    c.ot, c.st = ot, st
    c.O = H.OTree(ot, "o", names=on)
    c.S = H.OTree(st, "s", names=sn)
    c.leafmap = base_case.leafmap
    c.leafsyn = base_case.leafsyn
    c.rootsyn = base_case.rootsyn
    return c


def z_of(ctx, x):
    return ctx.z(x) if isinstance(x, Lin) or not hasattr(x, "positive") else None


def prove_le_all(ctx, costs, L, forms):
    """Prove L <= F for every finite oracle form F.  Returns (proved, model or None, n_forms)."""
    import z3
    Lz = H.form_z(ctx, costs, L)
    cl = []
    for F in forms:
        Fz = H.form_z(ctx, costs, F)
        if Fz is None:
            continue
        if Lz is None:
            return False, ctx.model_values(), len(forms)   # returned infinite while a finite one exists
        d = Lz - Fz
        if isinstance(d, Lin):
            cl.append(ctx.z(d) <= 0)
        elif d > 0:
            return False, ctx.model_values(), len(forms)
    if not cl:
        return True, None, 0
    m = ctx.prove(z3.And(*cl) if len(cl) > 1 else cl[0])
    return m is None, m, len(cl)
