"""C19 - topological orderings are enumerated completely and without repetition.

The graph is structural (enumerated: every digraph on up to 4 vertices including self-loops,
seeded larger ones); for each graph the *set* returned by the real toposort_all is decided against
a declarative z3 specification (one integer position per vertex, all different, pos[u] < pos[v]
for every edge): every output is a model, outputs are pairwise distinct, and
spec AND NOT(any output) is unsat (nothing missing); the result is empty iff the specification is
unsat; toposort returns a model iff the specification is sat.  _make_prec_graph followed by
toposort_all is compared with the root orders of the labelling oracle.
"""
import itertools
import random
import sys

import z3

from engine import runner as R
from engine.oracles import labels as LB
from engine.oracles.trees import OTree

from superrec2.compute.super_reconciliation import _make_prec_graph
from superrec2.utils.toposort import toposort, toposort_all

PROP = "C19"


class OrderSpec:
    def __init__(self, graph):
        self.nodes = list(graph)
        self.pos = {v: z3.Int(f"p_{v}") for v in self.nodes}
        self.s = z3.Solver()
        n = len(self.nodes)
        for v in self.nodes:
            self.s.add(self.pos[v] >= 0, self.pos[v] < n)
        if n > 1:
            self.s.add(z3.Distinct(*self.pos.values()))
        for u, succs in graph.items():
            for v in succs:
                self.s.add(self.pos[u] < self.pos[v])

    def sat(self):
        r = str(self.s.check())
        if r == "unknown":
            raise RuntimeError("z3 unknown")
        return r == "sat"

    def is_model(self, order):
        if sorted(order) != sorted(self.nodes) or len(order) != len(self.nodes):
            return False
        return str(self.s.check(*[self.pos[v] == i for i, v in enumerate(order)])) == "sat"

    def complete(self, orders):
        self.s.push()
        try:
            for o in orders:
                self.s.add(z3.Not(z3.And(*[self.pos[v] == i for i, v in enumerate(o)])) if o else z3.BoolVal(False))
            r = str(self.s.check())
            if r == "unknown":
                raise RuntimeError("z3 unknown")
            if r == "sat":
                m = self.s.model()
                return False, sorted(self.nodes, key=lambda v: m.eval(self.pos[v], True).as_long())
            return True, None
        finally:
            self.s.pop()


def graph_fails(graph):
    """graph: dict node -> set(successors).  Returns (fails, n_queries)."""
    fails, nq = [], 0
    spec = OrderSpec(graph)
    outs = toposort_all({k: set(v) for k, v in graph.items()})
    sat = spec.sat()
    nq += 1
    if not graph:
        return ([] if outs == [[]] or outs == [] else ["empty graph"]), nq
    if (len(outs) > 0) != sat:
        fails.append(f"toposort_all returns {len(outs)} ordering(s) although the graph is {'acyclic' if sat else 'cyclic'}")
    for o in outs:
        nq += 1
        if not spec.is_model(o):
            fails.append(f"toposort_all returns {o}, which is not a topological ordering")
            break
    want_outs = [tuple(o) for o in outs]
    if len(set(map(tuple, outs))) != len(outs):
        fails.append("toposort_all returns an ordering twice")
    if sat:
        nq += 1
        ok, missing = spec.complete(outs)
        if not ok:
            fails.append(f"toposort_all misses the ordering {missing}")
    one = toposort({k: set(v) for k, v in graph.items()})
    nq += 1
    if (one is not None) != sat:
        fails.append(f"toposort returns {one} although the graph is {'acyclic' if sat else 'cyclic'}")
    elif one is not None and not spec.is_model(one):
        fails.append(f"toposort returns {one}, which is not a topological ordering")
    # the caller owns what it gets: editing the returned orderings must not change what an equal call returns next
    for o in outs:
        o.reverse()
        o.append(None)
    again = toposort_all({k: set(v) for k, v in graph.items()})
    if sorted(map(tuple, again)) != sorted(want_outs):
        fails.append("toposort_all answers differently after the caller edited the lists of an earlier equal call")
    # vertices that hash and compare by identity (plain objects): the orderings must consist of the caller's own vertex objects
    objs = {k: _V(k) for k in graph}
    og = {objs[k]: {objs[x] for x in v} for k, v in graph.items()}
    oouts = toposort_all(og)
    if sorted(tuple(getattr(x, "label", None) for x in o) for o in oouts) != sorted(want_outs) or any(x not in og for o in oouts for x in o):
        fails.append("toposort_all on identity-hashed vertex objects does not return the orderings of the caller's vertices")
    oone = toposort(og)
    if (oone is not None) != sat or (oone is not None and (any(x not in og for x in oone) or not spec.is_model([x.label for x in oone]))):
        fails.append("toposort on identity-hashed vertex objects does not return a valid ordering of the caller's vertices")
    return fails, nq


class _V:
    """A vertex that hashes and compares by identity."""

    def __init__(self, label):
        self.label = label

    def __repr__(self):
        return f"V({self.label})"


def decode(n, bits):
    names = "abcdefg"[:n]
    g = {v: set() for v in names}
    k = 0
    for u in names:
        for v in names:
            if bits >> k & 1:
                g[u].add(v)
            k += 1
    return g


def prec_fails(leafsyn):
    """_make_prec_graph o toposort_all == root orders of the labelling oracle."""
    leaves = sorted(leafsyn)
    t = leaves[0]
    for l in leaves[1:]:
        t = (t, l)
    O = OTree(t, "o")
    want = sorted(tuple(o) for o in LB.root_orders(O, leafsyn))
    g = _make_prec_graph({k: list(v) for k, v in leafsyn.items()})
    got = sorted(tuple(o) for o in toposort_all(g))
    fails = []
    if got != want:
        fails.append(f"root orders from the precedence graph {got[:3]}... differ from the orders compatible with every leaf {want[:3]}...")
    return fails


def worker(item):
    out = dict(paths=1, obligations=0, discharged=0, violations=[], solver_queries=0, solver_s=0.0, item=item, section=item["section"])
    if item["kind"] == "block":
        n = item["n"]
        nontriv = 0
        for bits in range(item["lo"], item["hi"]):
            g = decode(n, bits)
            fails, nq = graph_fails(g)
            out["obligations"] += 5
            out["solver_queries"] += nq
            if fails:
                out["violations"].append(_viol(g, fails))
                if len(out["violations"]) > 2:
                    break
            else:
                out["discharged"] += 5
        out["nontrivial"] = True
        out["graphs"] = item["hi"] - item["lo"]
        if item.get("sample"):
            out["sample"] = {"digraphs": f"n={n}, adjacency codes {item['lo']}..{item['hi'] - 1}", "example": {k: sorted(v) for k, v in decode(n, item["hi"] - 1).items()}}
    elif item["kind"] == "graph":
        g = {k: set(v) for k, v in item["graph"].items()}
        fails, nq = graph_fails(g)
        out["obligations"], out["solver_queries"] = 5, nq
        out["discharged"] = 0 if fails else 5
        out["nontrivial"] = True
        out["graphs"] = 1
        if fails:
            out["violations"].append(_viol(g, fails))
    else:
        fails = prec_fails(item["leafsyn"])
        out["obligations"] = 1
        out["discharged"] = 0 if fails else 1
        out["nontrivial"] = True
        if fails:
            out["violations"].append({"kind": "prec", "text": f"{fails} for leaf syntenies {item['leafsyn']}",
                                      "signature": {"kind": "prec", "leafsyn": item["leafsyn"]}, "data": {"leafsyn": item["leafsyn"]}, "confirmed": True})
    return out


def _viol(g, fails):
    gg = {k: sorted(v) for k, v in g.items()}
    return {"kind": "toposort", "text": f"{fails[:2]} on graph {gg}", "signature": {"kind": "toposort", "graph": gg},
            "data": {"graph": gg}, "confirmed": True}


def replay(data):
    if "graph" in data:
        fails, _ = graph_fails({k: set(v) for k, v in data["graph"].items()})
    else:
        fails = prec_fails(data["leafsyn"])
    for t in fails:
        print("  reproduced:", t)
    return bool(fails)


def main(argv=None):
    tier, seed = R.tier_and_seed(argv)
    rng = random.Random(seed)
    q = tier == "quick"
    rep = R.Report(PROP, tier, seed)
    items = []
    for n in range(0, 4):
        total = 1 << (n * n)
        items.append({"kind": "block", "n": n, "lo": 0, "hi": total, "section": 0, "sample": n == 3})
    if q:
        codes = sorted(rng.sample(range(1 << 16), 1500))
        for c in codes:
            items.append({"kind": "block", "n": 4, "lo": c, "hi": c + 1, "section": 1})
    else:
        step = 512
        for lo in range(0, 1 << 16, step):
            items.append({"kind": "block", "n": 4, "lo": lo, "hi": lo + step, "section": 1})
    for _ in range(150 if q else 3000):
        n = rng.randint(5, 7)
        names = "abcdefg"[:n]
        perm = rng.sample(names, n)
        p = rng.choice([0.1, 0.2, 0.35])
        g = {v: [] for v in names}
        for i, u in enumerate(perm):
            for v in perm[i + 1:]:
                if rng.random() < p:
                    g[u].append(v)
        if rng.random() < 0.3:       # add a back edge: often cyclic
            u, v = rng.sample(names, 2)
            g[u].append(v)
        items.append({"kind": "graph", "graph": g, "section": 2})
    for _ in range(150 if q else 2000):
        nf = rng.randint(2, 5)
        fams = "abcde"[:nf]
        base = rng.sample(fams, nf)
        ls = {}
        for i in range(rng.randint(1, 4)):
            src = base if rng.random() < 0.75 else rng.sample(fams, nf)
            k = rng.randint(1, nf)
            chosen = set(rng.sample(fams, k))
            ls[f"l{i}"] = [g for g in src if g in chosen]
        if set(x for s in ls.values() for x in s):
            items.append({"kind": "prec", "leafsyn": ls, "section": 3})
    res, sk = R.run_sharded(worker, items, 120 if q else 3000)
    names = ["every digraph on 0-3 vertices (self-loops included)", "digraphs on 4 vertices" + (" (1500 seeded of 65536)" if q else " (all 65536)"),
             "seeded digraphs on 5-7 vertices", "_make_prec_graph o toposort_all vs. oracle root orders"]
    for si, nm in enumerate(names):
        mine = [r for r in res if r.get("section") == si]
        rep.add_results(nm, mine, sum(1 for it in items if it["section"] == si) - len(mine), exhaustive=(si == 0 or (si == 1 and not q)))
    rep.extra["graphs_decided"] = sum(r.get("graphs", 0) for r in res)
    import superrec2.utils.toposort as T
    rep.functions = R.safe_digest(lambda: R.source_digest(T.toposort, T.toposort_all, T._toposort_all_bt, _make_prec_graph))
    rep.bounds = {"graphs": "every digraph on <= 3 vertices; " + ("1500 seeded" if q else "all 65536") + " digraphs on 4 vertices (self-loops included); seeded digraphs on 5-7 vertices",
                  "precedence graphs": "seeded leaf-synteny sets over 2-5 families, 1-4 leaves, 25% with inconsistent orders"}
    rep.assumptions = ["the graph itself is enumerated; the solver decides membership, distinctness and completeness of the returned SET of orderings",
                       "z3 integer difference constraints + Distinct"]
    rep.outside = ["graphs with more than 7 vertices", "graphs whose successor sets mention vertices that are not keys"]
    return rep.finish(
        explanation="For each digraph the set returned by toposort_all is decided by z3 against a declarative position-variable specification: each "
                    "output is a model, and the specification conjoined with the negation of every output is unsatisfiable; emptiness and the single-"
                    "ordering routine are compared with satisfiability of the specification.",
        rule="one evaluation = one block of digraphs (or one seeded graph / one leaf-synteny set); every graph is decided by solver queries")


if __name__ == "__main__":
    sys.exit(main())
