"""C12 - the command-line tool names nodes, reports the true cost, writes readable output.

* label_internal (engine C, CrossHair): ancestor names are symbolic strings; the automatic naming
  is confirmed against an independent specification (distinct non-empty names, existing names
  untouched, O#/S# with increasing indices in pre-order) over all paths, with a reachability twin.
* `reconcile` front end (engine A): cli.reconcile.read_input + call_algorithm run in-process with
  SYMBOLIC unit costs in the argparse namespace; on every feasible path every returned solution is
  recounted by the oracle on the trees it refers to (which requires distinct non-empty names) and z3
  proves the recount equal to the value the tool prints as 'Minimum cost' for every cost vector.
* file level: the whole `reconcile` command (JSON in, one JSON object per line out) and
  `draw` (stub measurer) run with concrete costs - the solver's witnesses, one per explored path,
  plus a fixed list -: every line parses back to a solution priced at the printed minimum,
  `--solutions all` is a superset of `any`, `draw` accepts every line, a super-reconciliation
  algorithm without syntenies exits 1 and writes nothing.  Costs cannot cross argv/JSON
  symbolically: this part is concrete (stated).
* get_species_mapping: CrossHair does not confirm it within minutes (measured); the documented
  <species>_<id> convention is enumerated over a small alphabet (stated as enumeration).
"""
import argparse
import io
import itertools
import json
import random
import re
import sys

from ete3 import Tree
from infinity import inf

from engine import harness as H
from engine import runner as R
from engine import xhair
from engine.forksym import Inconclusive, Lin
from checks import dp_common as D
from checks import render_common as RC
from checks import sr_common as SR

import superrec2.cli.draw as DRAW
import superrec2.cli.reconcile as CLI
import superrec2.render.layout as LAYOUT
from superrec2.model.reconciliation import ReconciliationOutput, SuperReconciliationOutput
from superrec2.model.tree_mapping import get_species_mapping
from superrec2.utils.tex import MeasureBox

PROP = "C12"
NAME_CHOICES = [None, None, "O0", "O1", "O3", "S1", "x"]

XH_SOURCE = '''
from ete3 import Tree
from superrec2.model.reconciliation import ReconciliationInput
from superrec2.utils.trees import LowestCommonAncestor


def _build(n0, n1, m0):
    ot = Tree()
    ot.name = n0
    a = ot.add_child(name=n1)
    a.add_child(name="g_1")
    a.add_child(name="g_2")
    ot.add_child(name="g_3")
    st = Tree()
    st.name = m0
    st.add_child(name="S0")        # an extant species whose name looks like a generated one
    b = st.add_child(name="")
    b.add_child(name="B")
    b.add_child(name="C")
    return ot, st


def _expected(names, letter):
    names = list(names)
    nxt = 0
    for i, n in enumerate(names):
        if not n or n == "NoName":
            while letter + str(nxt) in names:
                nxt += 1
            names[i] = letter + str(nxt)
    return names


def check_label(n0: str, n1: str, m0: str) -> bool:
    """
    pre: len(n0) <= 2 and len(n1) <= 2 and len(m0) <= 2
    pre: all(c in "OS01x" for c in n0) and all(c in "OS01x" for c in n1) and all(c in "OS01x" for c in m0)
    pre: n0 != n1 or n0 == ""
    pre: m0 != "S0"
    post: __return__
    """
    ot, st = _build(n0, n1, m0)
    inp = ReconciliationInput(ot, LowestCommonAncestor(st), {})
    inp.label_internal()
    got = [n.name for n in ot.traverse("preorder")]
    sgot = [n.name for n in st.traverse("preorder")]
    return (got == _expected([n0, n1, "g_1", "g_2", "g_3"], "O") and len(set(got)) == len(got) and all(got)
            and sgot == _expected([m0, "S0", "", "B", "C"], "S") and len(set(sgot)) == len(sgot) and all(sgot))


def twin_label(n0: str, n1: str, m0: str) -> bool:
    """
    pre: len(n0) <= 2 and len(n1) <= 2 and len(m0) <= 2
    pre: all(c in "OS01x" for c in n0) and all(c in "OS01x" for c in n1) and all(c in "OS01x" for c in m0)
    pre: n0 != n1 or n0 == ""
    pre: m0 != "S0"
    post: __return__
    """
    return not (n0 == "" and n1 == "O0" and m0 == "S1")
'''


def xhair_item(item):
    out = dict(paths=1, obligations=2, discharged=0, violations=[], solver_queries=0, solver_s=0.0, nontrivial=True, item=item, section=0)
    r = xhair.run(XH_SOURCE, per_condition_timeout=item["timeout"], extra_path=[__import__("os").environ.get("VERIF_REPO_SRC", "/repo/src")])
    ce = r.get("check_label", {"verdict": "inconclusive", "detail": "no report: " + r.get("_raw", "")[-300:]})
    tw = r.get("twin_label", {"verdict": "inconclusive", "detail": "no report"})
    out["solver_s"] = r.get("_wall_s", 0.0)
    out["sample"] = {"function": "ReconciliationInput.label_internal", "engine": "CrossHair", "bound": "three ancestor names, len <= 2 over {O,S,0,1,x}; one extant species is called S0",
                     "verdict": ce["verdict"], "reachability twin": tw["verdict"] + ": " + tw.get("detail", "")[:90], "wall_s": r.get("_wall_s")}
    if tw["verdict"] != "counterexample":
        return {"status": "inconclusive", "reason": f"CrossHair reachability twin not refuted ({tw['verdict']})", "item": item, "section": 0}
    out["discharged"] += 1
    if ce["verdict"] == "confirmed":
        out["discharged"] += 1
    elif ce["verdict"] == "counterexample":
        out["violations"].append({"kind": "label_internal", "text": "label_internal contradicts the naming specification: " + ce["detail"],
                                  "signature": {"kind": "label_internal", "detail": ce["detail"][:80]},
                                  "data": {"what": "label", "detail": ce["detail"]}, "confirmed": bool(ce.get("reproduced"))})
    else:
        return {"status": "inconclusive", "reason": f"CrossHair: {ce['detail'][:120]}", "item": item, "section": 0}
    return out


# ----------------------------------------------------------------------------- documented input files
def expected_names(T, given, letter):
    """Independent specification: names in pre-order (index order of OTree); None/'' = unnamed."""
    names = [T.name[i] if not T.children[i] else (given.get(str(i)) or "") for i in range(T.n)]
    nxt = 0
    for i, n in enumerate(names):
        if not n:
            while f"{letter}{nxt}" in names:
                nxt += 1
            names[i] = f"{letter}{nxt}"
    return names


def input_json(desc):
    """The documented input file for a descriptor with partially named ancestors."""
    case = H.Case(desc)
    O, S = case.O, case.S
    for T, given in ((O, desc.get("onames", {})), (S, desc.get("snames", {}))):
        for i in T.internals:
            T.name[i] = given.get(str(i)) or ""
    d = {"object_tree": O.newick(), "species_tree": S.newick()}
    if not desc.get("infer_species"):
        d["leaf_object_species"] = case.leafmap
    if case.leafsyn is not None:
        d["leaf_syntenies"] = dict(case.leafsyn)
        if desc.get("rootsyn") and desc.get("onames", {}).get("0"):
            # the documented extra entry: the synteny of the root, keyed by the name the user gave to the root of the object tree
            d["leaf_syntenies"][desc["onames"]["0"]] = list(desc["rootsyn"])
    return d


def make_args(desc, algo, policy, costs):
    ns = argparse.Namespace()
    ns.input = io.StringIO(json.dumps(input_json(desc)))
    ns.output = io.StringIO()
    ns.algorithm = algo
    ns.solutions = policy
    for n, (argname) in (("spe", "spe"), ("dup", "dup"), ("hgt", "hgt"), ("floss", "floss"), ("sloss", "sloss")):
        setattr(ns, f"cost_{argname}", costs[n])
    return ns


def named_case(desc):
    """Case whose oracle trees carry the names the tool must produce."""
    case = H.Case(desc)
    on = expected_names(case.O, desc.get("onames", {}), "O")
    sn = expected_names(case.S, desc.get("snames", {}), "S")
    case.O.name, case.S.name = on, sn
    case.O.by_name = {n: i for i, n in enumerate(on)}
    case.S.by_name = {n: i for i, n in enumerate(sn)}
    return case, on, sn


def names_ok(out, on, sn):
    got_o = [n.name for n in out.input.object_tree.traverse("preorder")]
    got_s = [n.name for n in out.input.species_lca.tree.traverse("preorder")]
    fails = []
    if got_o != on:
        fails.append(f"object tree names {got_o}, expected {on}")
    if got_s != sn:
        fails.append(f"species tree names {got_s}, expected {sn}")
    if len(set(got_o)) != len(got_o) or not all(got_o) or len(set(got_s)) != len(got_s) or not all(got_s):
        fails.append("names are not distinct and non-empty")
    return fails


# ----------------------------------------------------------------------------- file-level concrete run
def stub_measure(nodes, params):
    return [MeasureBox(7.0 + 3 * (i % 3), 5.0 + (i % 2), 1.0) for i, _ in enumerate(nodes)]


def _parser():
    """The real argument parser of `python -m superrec2.cli` (cli/__main__.py builds exactly this)."""
    parser = argparse.ArgumentParser()
    sub = parser.add_subparsers(required=True)
    CLI.add_args(sub)
    DRAW.add_args(sub)
    return parser


def _cost_arg(v):
    return "float('inf')" if v == float("inf") else str(v)


def run_cli(desc, algo, policy, costs):
    """The whole `reconcile` command through the real argument parser, with files.  -> (status, stderr, lines, raw output)"""
    import os, shutil, tempfile
    tmp = tempfile.mkdtemp(prefix="vcli_")
    try:
        inp, outp = os.path.join(tmp, "in.json"), os.path.join(tmp, "out.json")
        with open(inp, "w") as f:
            json.dump(input_json(desc), f)
        argv = ["reconcile", "--input", inp, "--output", outp, algo]
        if policy != "any" or len(json.dumps(input_json(desc))) % 2:
            argv += ["--solutions", policy]          # 'any' is also the default: exercised both ways
        defaults = {"spe": 0, "dup": 1, "hgt": 1, "floss": 1, "sloss": 1}
        for k, v in costs.items():
            if v != defaults[k] or k in ("dup", "floss"):
                argv += [f"--cost-{k}", _cost_arg(v)]
        old = sys.stderr
        sys.stderr = err = io.StringIO()
        try:
            args = _parser().parse_args(argv)
            status = args.func(args)
        finally:
            sys.stderr = old
            for fobj in ("input", "output"):
                try:
                    getattr(args, fobj).close()
                except Exception:
                    pass
        with open(outp) as f:
            raw = f.read()
        return status, err.getvalue(), [l for l in raw.split("\n") if l != ""], raw
    finally:
        shutil.rmtree(tmp, ignore_errors=True)


def run_draw(line, orientation):
    """The `draw` command (tikz output) through the real argument parser, stub measurer bound.  -> (status, tikz text)"""
    import os, shutil, tempfile
    tmp = tempfile.mkdtemp(prefix="vcli_")
    saved = LAYOUT.measure_nodes
    LAYOUT.measure_nodes = stub_measure
    try:
        inp, outp = os.path.join(tmp, "sol.json"), os.path.join(tmp, "out.tex")
        with open(inp, "w") as f:
            f.write(line)
        argv = ["draw", "--input", inp, "--output", outp] + (["--orientation", orientation] if orientation != "horizontal" else [])
        args = _parser().parse_args(argv)
        try:
            status = args.func(args)
        finally:
            args.input.close()
            args.output.close()
        with open(outp) as f:
            return status, f.read()
    finally:
        LAYOUT.measure_nodes = saved
        shutil.rmtree(tmp, ignore_errors=True)


def has_solution(case, algo):
    """Every input has a solution except an ordered solver given leaves whose gene orders admit no common root order (C02: the result is
    then empty; the command exits with status 1 and writes nothing, which the property does not forbid)."""
    if D.ORDERED.get(algo) and case.leafsyn is not None:
        from engine.oracles import labels as LB
        return bool(LB.root_orders(case.O, case.leafsyn, case.rootsyn))
    return True


def file_level_fails(desc, algo, costs):
    fails = []
    # on the command line an infinite cost is the Python float (--cost-hgt "float('inf')"), which JSON can carry
    costs = {k: (float("inf") if v is inf else v) for k, v in costs.items()}
    case, on, sn = named_case(desc)
    sup = SR.is_super(algo)
    if sup and case.leafsyn is None:
        st, err, lines, raw = run_cli(desc, algo, "any", costs)
        if st != 1 or raw != "":
            fails.append(f"super-reconciliation algorithm without syntenies: status {st}, output {raw[:40]!r}")
        return fails
    keysets = {}
    solvable = has_solution(case, algo)
    for policy in ("any", "all"):
        try:
            st, err, lines, raw = run_cli(desc, algo, policy, costs)
        except Exception as e:
            return [f"{policy}: exception {type(e).__name__}: {e}"]
        if not solvable:
            if raw != "":
                fails.append(f"{policy}: output written although no gene order is compatible with all leaves: {raw[:60]!r}")
            continue
        if st not in (None, 0):
            fails.append(f"{policy}: exit status {st}")
            continue
        m = re.search(r"Minimum cost: (\S+)", err)
        if not m:
            fails.append(f"{policy}: no 'Minimum cost' line")
            continue
        printed = m.group(1)
        if raw and not raw.endswith("\n"):
            fails.append(f"{policy}: output does not end with a newline")
        keys = set()
        for line in lines:
            try:
                obj = json.loads(line)
            except ValueError:
                fails.append(f"{policy}: a line is not one JSON object")
                break
            cls = SuperReconciliationOutput if "syntenies" in obj else ReconciliationOutput
            try:
                back = cls.from_dict(obj)
            except Exception as e:
                fails.append(f"{policy}: a written solution does not parse back ({type(e).__name__}: {e})")
                break
            fails += [f"{policy}: {f}" for f in names_ok(back, on, sn)]
            cnt, why = D.recount_case(case, back, D.ORDERED[algo] if sup else None)
            if cnt is None:
                fails.append(f"{policy}: written solution invalid after parsing back: {why}")
                break
            v = H.form_value(costs, cnt)
            if str(v) != printed:
                fails.append(f"{policy}: solution recounts to {v}, the tool printed {printed}")
            keys.add(SR.solution_key(case, back, algo))
            # draw accepts it
            try:
                dst, tikz = run_draw(line, "horizontal" if len(keys) % 2 else "vertical")
                if dst not in (None, 0) or "\\begin{tikzpicture}" not in tikz:
                    fails.append(f"{policy}: draw produced no picture (status {dst})")
            except Exception as e:
                fails.append(f"{policy}: draw rejects a written solution ({type(e).__name__}: {e})")
            if fails:
                break
        if policy == "any" and len(lines) != 1:
            fails.append(f"any: {len(lines)} lines written")
        keysets[policy] = keys
    if "any" in keysets and "all" in keysets and not keysets["any"] <= keysets["all"]:
        fails.append("--solutions all is not a superset of --solutions any")
    return fails


# ----------------------------------------------------------------------------- symbolic front end
def front_item(item):
    desc, algo = item["desc"], item["algo"]
    case, on, sn = named_case(desc)
    sup = SR.is_super(algo)
    out = dict(paths=0, obligations=0, discharged=0, violations=[], sample=None, solver_queries=0, solver_s=0.0, forks=0, section=1)
    fixed = H.cost_unjson(item["fixed"])
    witnesses = [H.cost_unjson(c) for c in item["concrete"]]

    def viol(kind, text, cc):
        cf = file_level_fails(desc, algo, cc)
        out["violations"].append({"kind": kind, "text": f"{algo}: {text}; input file {input_json(desc)}; costs {H.cost_json(cc)}; file-level re-run: {cf[:2]}",
                                  "signature": {"kind": kind, "algo": algo, "what": re.sub(r"[0-9]+", "#", text)[:60]},
                                  "data": {"what": "cli", "desc": desc, "algo": algo, "costs": H.cost_json(cc)}, "confirmed": bool(cf)})

    solvable = has_solution(case, algo)
    try:
        if not (sup and case.leafsyn is None):
            ctx, costs = H.cost_ctx(item["sym"], fixed=fixed, coherent=True, with_sloss=sup, max_paths=item["max_paths"], budget_s=item["budget_s"])
            for policy in ("any", "all"):
                for _ in ctx.paths():
                    args = make_args(desc, algo, policy, costs)
                    old = sys.stderr
                    sys.stderr = err = io.StringIO()
                    try:
                        rec_input = CLI.read_input(args)
                        results = CLI.call_algorithm(args, rec_input)
                    except Exception as e:
                        sys.stderr = old
                        out["obligations"] += 1
                        viol("exception", f"{type(e).__name__}: {e}", H.concrete_costs(costs, ctx.model_values()))
                        break
                    finally:
                        sys.stderr = old
                    out["obligations"] += 1
                    if not solvable:
                        if results:
                            viol("nonempty", "a result is returned although no gene order is compatible with all leaves", H.concrete_costs(costs, ctx.model_values()))
                            break
                        out["discharged"] += 1
                        continue
                    if not results:
                        viol("empty", "no result", H.concrete_costs(costs, ctx.model_values()))
                        break
                    out["discharged"] += 1
                    printed = results[0].cost()
                    bad = False
                    for r in results:
                        out["obligations"] += 2
                        nf = names_ok(r, on, sn)
                        if nf:
                            viol("names", nf[0], H.concrete_costs(costs, ctx.model_values()))
                            bad = True
                            break
                        out["discharged"] += 1
                        cnt, why = D.recount_case(case, r, D.ORDERED[algo] if sup else None)
                        if cnt is None:
                            viol("invalid", why, H.concrete_costs(costs, ctx.model_values()))
                            bad = True
                            break
                        F = H.form_z(ctx, costs, cnt)
                        if F is None or not isinstance(printed, (Lin, int)):
                            ok, model = ((F is None) == (not isinstance(printed, (Lin, int)))), None
                        else:
                            d = (F + ctx.const(0)) - (printed + ctx.const(0))
                            model = ctx.prove(ctx.z(d) == 0)
                            ok = model is None
                        if ok:
                            out["discharged"] += 1
                        else:
                            viol("printed-cost", f"a written solution recounts to {cnt} x costs but the tool prints {printed}",
                                 H.concrete_costs(costs, model if model else ctx.model_values()))
                            bad = True
                            break
                    if bad:
                        break
                    if len(witnesses) < item["nwit"]:
                        witnesses.append(H.concrete_costs(costs, ctx.model_values()))
                    if out["sample"] is None and ctx.npaths >= 2:
                        out["sample"] = {"input_file": input_json(desc), "algorithm": algo, "policy": policy, "expected_names": {"object": on, "species": sn},
                                         "path_condition": ctx.pc_text(5), "printed_minimum": repr(printed)}
            st = ctx.stats()
            out.update(paths=st["paths"], solver_queries=st["solver_queries"], solver_s=st["solver_s"], forks=st["forks"])
        # file level with concrete witnesses
        for cc in witnesses:
            out["obligations"] += 1
            ff = file_level_fails(desc, algo, cc)
            if ff:
                out["violations"].append({"kind": "file", "text": f"{algo}: {ff[:2]}; input file {input_json(desc)}; costs {H.cost_json(cc)}",
                                          "signature": {"kind": "file", "algo": algo, "what": re.sub(r"[0-9]+", "#", ff[0])[:60]},
                                          "data": {"what": "cli", "desc": desc, "algo": algo, "costs": H.cost_json(cc)}, "confirmed": True})
                break
            out["discharged"] += 1
        out["file_level_runs"] = len(witnesses)
    except Inconclusive as e:
        out["status"] = "inconclusive"
        out["reason"] = str(e)
    out["nontrivial"] = out["forks"] > 0 or bool(witnesses)
    out["item"] = {"desc": desc, "algo": algo}
    return out


# ----------------------------------------------------------------------------- get_species_mapping (enumeration)
def mapping_item(item):
    out = dict(paths=1, obligations=0, discharged=0, violations=[], solver_queries=0, solver_s=0.0, nontrivial=True, item=item, section=2)
    alpha = "aA_b"
    names = ["".join(p) for k in range(1, 4) for p in itertools.product(alpha, repeat=k)]
    s1 = item["s1"]
    for s2 in names:
        if s1.lower() == s2.lower():
            continue
        for suffix in ("1", "a2"):
            st = Tree()
            st.add_child(name=s1)
            st.add_child(name=s2)
            ot = Tree()
            leaves = [ot.add_child(name=s1 + "_" + suffix), ot.add_child(name=s2 + "_" + suffix)]
            got = {k.name: v.name for k, v in get_species_mapping(ot, st).items()}
            out["obligations"] += 1
            bad = None
            for l in leaves:
                parts = l.name.split("_")
                want = None
                for i in range(1, len(parts)):
                    p = "_".join(parts[:i]).lower()
                    for s in (s1, s2):
                        if s.lower() == p and want is None:
                            want = s
                    if want is not None:
                        break
                if got.get(l.name) != want or want is None:
                    bad = f"leaf {l.name!r} mapped to {got.get(l.name)!r}, documented rule gives {want!r} (species {s1!r}, {s2!r})"
            if bad:
                out["violations"].append({"kind": "species-mapping", "text": bad, "signature": {"kind": "species-mapping", "s1": s1, "s2": s2},
                                          "data": {"what": "mapping", "s1": s1, "s2": s2, "suffix": suffix}, "confirmed": True})
                return out
            out["discharged"] += 1
    return out


# ----------------------------------------------------------------------------- multifurcating input files (names through the refinement)
def poly_fails(desc, algo, costs):
    """File-level run of an extended solver on an input with polytomies and partially named ancestors (the root included)."""
    case = H.Case(desc)
    fails = []
    given = {}
    for T, names, which in ((case.O, desc.get("onames", {}), "object"), (case.S, desc.get("snames", {}), "species")):
        for i in T.internals:
            if names.get(str(i)):
                given[(which, T.leafset(i))] = names[str(i)]
    for policy in ("any", "all"):
        try:
            st, err, lines, raw = run_cli(desc, algo, policy, costs)
        except Exception as e:
            return [f"{policy}: exception {type(e).__name__}: {e}"]
        if not has_solution(case, algo):
            if raw != "":
                fails.append(f"{policy}: output written although no gene order is compatible with all leaves")
            continue
        if st not in (None, 0) or not lines:
            fails.append(f"{policy}: exit status {st}, {len(lines)} line(s)")
            continue
        m = re.search(r"Minimum cost: (\S+)", err)
        for line in lines:
            try:
                obj = json.loads(line)
                back = SuperReconciliationOutput.from_dict(obj)
            except Exception as e:
                fails.append(f"{policy}: a written line does not parse back ({type(e).__name__}: {e})")
                break
            if m and str(back.cost()) != m.group(1):
                fails.append(f"{policy}: parsed-back cost {back.cost()} != printed minimum {m.group(1)}")
            for which, tree, letter in (("object", back.input.object_tree, "O"), ("species", back.input.species_lca.tree, "S")):
                names = [n.name for n in tree.traverse("preorder")]
                if len(set(names)) != len(names) or not all(names):
                    fails.append(f"{policy}: {which} tree names {names} are not distinct and non-empty")
                for n in tree.traverse():
                    if n.is_leaf():
                        continue
                    clade = frozenset(l.name for l in n.iter_leaves())
                    want = given.get((which, clade))
                    if want is not None and n.name != want:
                        fails.append(f"{policy}: the {which} ancestor the user named {want!r} is called {n.name!r} in the output")
                    elif want is None and not re.fullmatch(letter + r"[0-9]+", n.name) and n.name not in given.values():
                        fails.append(f"{policy}: generated {which} name {n.name!r} is not {letter}#")
            if fails:
                break
    return fails


def poly_item(item):
    out = dict(paths=1, obligations=8, discharged=0, violations=[], solver_queries=0, solver_s=0.0, nontrivial=True,
               item={"desc": item["desc"], "algo": item["algo"]}, section=item["section"])
    costs = {"spe": 0, "dup": 1, "hgt": 1, "floss": 1, "sloss": 1}
    f = poly_fails(item["desc"], item["algo"], costs)
    if f:
        out["violations"].append({"kind": "poly-names", "text": f"{item['algo']}: {f[:3]}; input file {input_json(item['desc'])}",
                                  "signature": {"kind": "poly-names", "algo": item["algo"], "what": re.sub(r"[0-9]+", "#", f[0])[:60]},
                                  "data": {"what": "poly", "desc": item["desc"], "algo": item["algo"]}, "confirmed": True})
    else:
        out["discharged"] = 8
    return out


def worker(item):
    if item["kind"] == "poly":
        return poly_item(item)
    if item["kind"] == "xhair":
        return xhair_item(item)
    if item["kind"] == "front":
        return front_item(item)
    return mapping_item(item)


def replay(data):
    if data["what"] == "cli":
        ff = file_level_fails(data["desc"], data["algo"], H.cost_unjson(data["costs"]))
        for t in ff[:5]:
            print("  reproduced:", t)
        return bool(ff)
    if data["what"] == "poly":
        ff = poly_fails(data["desc"], data["algo"], {"spe": 0, "dup": 1, "hgt": 1, "floss": 1, "sloss": 1})
        for t in ff[:5]:
            print("  reproduced:", t)
        return bool(ff)
    if data["what"] == "mapping":
        r = mapping_item({"s1": data["s1"]})
        return bool(r["violations"])
    print("  CrossHair counterexample:", data.get("detail"))
    return True


def generated_like_species(rng, d):
    """Extant species literally called S<k>: the names generated for unnamed ancestors must avoid the leaves' names too."""
    sl = D._leafnames(H.totuple(d["st"]))
    mp = {s: f"S{k}" for s, k in zip(sl, rng.sample(range(len(sl) + 2), len(sl)))}
    return dict(d, st=D._rename(H.totuple(d["st"]), mp), leafmap={l: mp[s] for l, s in d["leafmap"].items()})


def random_named(rng, d):
    case = H.Case(d)
    used = set(D._leafnames(H.totuple(d["st"]))) | set(D._leafnames(H.totuple(d["ot"])))

    def pick(T):
        out = {}
        for i in T.internals:
            c = rng.choice(NAME_CHOICES)
            if c and c not in used:
                out[str(i)] = c
                used.add(c)
        return out

    d = dict(d)
    d["onames"] = pick(case.O)
    d["snames"] = pick(case.S)
    return d


def main(argv=None):
    tier, seed = R.tier_and_seed(argv)
    rng = random.Random(seed)
    q = tier == "quick"
    rep = R.Report(PROP, tier, seed)
    items = [{"kind": "xhair", "timeout": 120 if q else 900, "section": 0}]
    fixed_list = [{"spe": 0, "dup": 1, "hgt": 1, "floss": 1, "sloss": 1}, {"spe": 1, "dup": 2, "hgt": "inf", "floss": 1, "sloss": 0},
                  {"spe": 3, "dup": 2500000, "hgt": 1000003, "floss": 1, "sloss": 7},      # a large penalty cost: the printed minimum has many digits
                  {"spe": 3, "dup": 2 ** 53 + 3, "hgt": 3 * (2 ** 53 + 3) + 1, "floss": 2 ** 53 + 3, "sloss": 2}]   # integers no double can hold
    algos = ["lca", "thl", "exh", "base_spfs", "ext_spfs", "base_uspfs", "superdtl"]
    nin = 40 if q else 400
    for k in range(nin):
        algo = algos[k % 7]
        ordered = D.ORDERED.get(algo, rng.random() < 0.5)
        no = rng.randint(2, 3 if algo in ("ext_spfs", "base_spfs") else 4)
        with_syn = SR.is_super(algo) or rng.random() < 0.4
        if SR.is_super(algo) and rng.random() < 0.12:
            with_syn = False          # must exit 1 and write nothing
        base = (SR.random_super_input(rng, no, rng.randint(2, 3), rng.randint(1, 3), bool(ordered), rootsyn_p=0.4 if not SR.is_super(algo) or D.ORDERED.get(algo) else 0.0)
                if with_syn else D.random_plain_input(rng, no, rng.randint(2, 3)))
        if base.get("leafsyn") and rng.random() < 0.35:
            base = D.rename_families(base, rng)
        if rng.random() < 0.3:
            base = generated_like_species(rng, base)
        d = random_named(rng, RC.documented_names(base))
        if d.get("rootsyn"):
            d["onames"]["0"] = d["onames"].get("0") or "root"      # the root entry of leaf_syntenies needs a user-given root name
        if rng.random() < 0.35:
            # leaves named <species>_<k> after a species OTHER than the declared one: the explicit leaf_object_species entry is what counts
            sp = sorted(set(d["leafmap"].values()))
            mp = {}
            for k, l in enumerate(sorted(d["leafmap"])):
                others = [x for x in sp if x != d["leafmap"][l]] or sp
                mp[l] = f"{rng.choice(others)}_{k}"
            d["ot"] = D._rename(H.totuple(d["ot"]), mp)
            d["leafmap"] = {mp[l]: v for l, v in d["leafmap"].items()}
            if d.get("leafsyn"):
                d["leafsyn"] = {mp[l]: v for l, v in d["leafsyn"].items()}
        sup = SR.is_super(algo)
        full = rng.random() < 0.5
        sym = (SR.FULL5 if sup else ["spe", "dup", "hgt", "floss"]) if full else (SR.DHS if sup else ["dup", "hgt"])
        fixed = {} if full else {"spe": 0, "floss": 1}
        if rng.random() < 0.2:
            sym = [s for s in sym if s != "hgt"]
            fixed = dict(fixed, hgt="inf")
        items.append({"kind": "front", "desc": d, "algo": algo, "sym": sym, "fixed": fixed, "concrete": fixed_list, "nwit": 4 if q else 8,
                      "max_paths": 4000 if q else 20000, "budget_s": 100.0 if q else 900.0, "section": 1})
    # ordered solvers on leaves whose gene orders are mutually inconsistent: no solution exists, nothing may be written
    for k, algo in enumerate(["ext_spfs", "base_spfs"] * (1 if q else 6)):
        base = SR.random_super_input(rng, rng.randint(2, 3), 2, 3, True)
        ls = sorted(base["leafsyn"])
        base["leafsyn"][ls[0]], base["leafsyn"][ls[1]] = ["a", "b", "c"][: 2 + k % 2], ["b", "a"]
        items.append({"kind": "front", "desc": random_named(rng, RC.documented_names(base)), "algo": algo, "sym": SR.DHS, "fixed": {"spe": 0, "floss": 1},
                      "concrete": fixed_list, "nwit": 2, "max_paths": 4000, "budget_s": 100.0, "section": 1})
    # multifurcating input files with partially named ancestors (root named in every other one): names must survive the refinement
    for k in range(6 if q else 60):
        algo = ["ext_spfs", "superdtl"][k % 2]
        base = SR.random_poly_input(rng, rng.randint(3, 4), rng.randint(3, 4), 2, algo == "ext_spfs", True, k % 3 == 0)
        base.pop("oprefix", None), base.pop("sprefix", None), base.pop("brlen", None)
        if k % 3 == 1:
            base = generated_like_species(rng, base)
        d = random_named(rng, RC.documented_names(base))
        if k % 2 == 0:
            d["onames"]["0"] = "root"
            d["snames"]["0"] = "LUCA"
        items.append({"kind": "poly", "desc": d, "algo": algo, "section": 1})
    alpha = "aA_b"
    for s1 in ["".join(p) for k in range(1, (3 if q else 4)) for p in itertools.product(alpha, repeat=k)]:
        items.append({"kind": "mapping", "s1": s1, "section": 2})
    res, sk = R.run_sharded(worker, items, 140 if q else 3000)
    names = ["label_internal (CrossHair)", "reconcile front end on symbolic costs + file-level runs on solver witnesses", "get_species_mapping (exhaustive enumeration)"]
    for si, nm in enumerate(names):
        mine = [r for r in res if r.get("section") == si]
        rep.add_results(nm, mine, sum(1 for it in items if it["section"] == si) - len(mine), exhaustive=False)
    rep.extra["file_level_runs"] = sum(r.get("file_level_runs", 0) for r in res)
    import superrec2.model.reconciliation as M, superrec2.model.tree_mapping as TM
    rep.functions = R.safe_digest(lambda: R.source_digest(CLI.read_input, CLI.call_algorithm, CLI.dump_results, CLI.reconcile, DRAW.generate_tikz, M.ReconciliationInput.label_internal,
                                    M.ReconciliationInput.from_dict, M.ReconciliationOutput.from_dict, M.SuperReconciliationOutput.from_dict, TM.get_species_mapping))
    rep.bounds = {"label_internal": "three ancestor names, each a symbolic string with len <= 2 over {O,S,0,1,x} (CrossHair, all paths)",
                  "front end": f"{nin} seeded documented-format inputs (2-4 object leaves, 2-3 species leaves, ancestors unnamed or named O0/O1/O3/S1/x, 30% with extant species literally called S<k>), all seven "
                               "algorithms in turn, both policies; unit costs symbolic non-negative integers in the coherent region (all, or dup/hgt/sloss with "
                               "spe=0, floss=1; 20% with hgt=inf)",
                  "file level": "per input: 2 fixed cost vectors + up to 4 (thorough: 8) solver witnesses, whole reconcile command and draw in-process",
                  "get_species_mapping": "two species names of length 1-3 (quick: first name 1-2) over {a,A,_,b}, leaf <species>_<id>"}
    rep.assumptions = ["costs cannot cross argv/JSON symbolically: the JSON round trip, `draw`, the superset relation and the exit status are checked with concrete "
                       "cost vectors (solver witnesses of every explored path + a fixed list)",
                       "get_species_mapping: CrossHair reports 'Not confirmed' after 90 s for two names of len <= 2 (str.lower/split on symbolic strings); enumerated instead",
                       "file level goes through the real argparse parser (cli.reconcile.add_args / cli.draw.add_args, eval_cost) with temporary files; the symbolic front end calls read_input / call_algorithm with a Namespace"]
    rep.stubs = RC.STUBS + ["render.layout.measure_nodes -> fixed-size stub for draw"]
    rep.outside = ["pdf output", "cost expressions other than integers and float('inf')", "input files with duplicate or non-alphanumeric names"]
    return rep.finish(
        explanation="The naming routine is confirmed by CrossHair on symbolic names. The reconcile front end (read_input + call_algorithm) runs on symbolic unit costs: "
                    "on every feasible path all results carry the specified distinct names and z3 proves every written solution's oracle recount equal to the "
                    "printed minimum for all cost vectors. The file-level behaviour (JSON lines, parse-back, draw, superset, exit status) is exercised with the "
                    "solver's witness cost vectors.",
        rule="one evaluation = the CrossHair contract, one (input file, algorithm) explored under both policies plus its file-level runs, or one block of species-name pairs")


if __name__ == "__main__":
    sys.exit(main())
