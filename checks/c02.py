"""C02 - ordered super-reconciliation returns a minimum-cost labelled reconciliation.

Engine A: all five unit costs symbolic (coherent region), real sreconcile_extended_spfs /
sreconcile_base_spfs explored on every feasible cost ordering (including the sloss = 0 face);
on each path z3 proves the returned total <= every (valid mapping x root order x labelling)
form of the independent oracle; empty result iff no root order is compatible with the leaves.
"""
import itertools
import random
import sys

from engine import runner as R
from checks import sr_common as SR
from checks import sr_main

PROP = "C02"
FLAGS = {"opt", "valid", "empty"}
replay = SR.replay


def main(argv=None):
    tier, seed = R.tier_and_seed(argv)
    rng = random.Random(seed)
    algos = ["ext_spfs", "base_spfs"]
    if tier == "quick":
        small = [SR.random_super_input(rng, rng.randint(2, 3), rng.randint(1, 3), rng.randint(1, 3), True, rootsyn_p=0.25, consistent_p=0.7)
                 for _ in range(140)]
        mid = [SR.random_super_input(rng, 4, rng.randint(2, 3), 3, True, rootsyn_p=0.2) for _ in range(24)]
        big = []
        deep = [SR.random_super_input(rng, rng.randint(4, 5), rng.randint(3, 4), rng.randint(3, 4), True, rootsyn_p=0.1, consistent_p=0.9) for _ in range(120)]
        budget, mp, bs = 150, 6000, 200.0
    else:
        small = list(SR.exhaustive_super_inputs(3, 2, 2, True)) + list(SR.exhaustive_super_inputs(2, 2, 3, True))
        small += [SR.random_super_input(rng, 3, rng.randint(2, 3), 3, True, rootsyn_p=0.25, consistent_p=0.7) for _ in range(400)]
        mid = [SR.random_super_input(rng, 4, rng.randint(2, 3), 3, True, rootsyn_p=0.2) for _ in range(200)]
        big = [SR.random_super_input(rng, rng.randint(4, 5), rng.randint(3, 4), 4, True, rootsyn_p=0.2) for _ in range(50)]
        deep = [SR.random_super_input(rng, rng.randint(4, 5), rng.randint(3, 4), rng.randint(3, 4), True, rootsyn_p=0.1, consistent_p=0.9) for _ in range(1200)]
        budget, mp, bs = 5400, 30000, 900.0
    hist = [SR.random_super_input(rng, 3, rng.randint(2, 3), rng.randint(2, 3), True, consistent_p=0.9) for _ in range(10 if tier == "quick" else 80)]
    sections = [
        ("call history: the same solver called earlier in the same interpreter (same input at default costs, sibling input at other costs), "
         "then explored with five symbolic costs", [(d, SR.history_runs(algos, FLAGS)) for d in hist], False),
        ("2-3 leaves, five symbolic costs", [(d, SR.runs_for(algos, ["any", "all"], FLAGS, "full")) for d in small], tier == "thorough"),
        ("4 leaves, five symbolic costs", [(d, SR.runs_for(algos, ["any", "all"], FLAGS, "full")) for d in mid], False),
        ("4-5 leaves x 4 families, dup/hgt/sloss symbolic (spe=0, floss=1)", [(d, SR.runs_for(algos, ["any"], FLAGS, "dhs")) for d in big], False),
        ("4-5 leaves x 3-4 families (90% mutually consistent orders), dup/hgt/sloss symbolic (spe=0, floss=1), finite transfer cost",
         [(d, SR.runs_for(algos, ["any"], FLAGS, "dhs", inf_too=False)) for d in deep], False),
    ]
    many = [SR.many_family_input(rng, rng.randint(2, 3), rng.randint(2, 3), rng.randint(9, 10)) for _ in range(6 if tier == "quick" else 40)]
    sections.append(("2-3 leaves x 9-10 families in one common order (synteny masks wider than a byte), dup/hgt/sloss symbolic",
                     [(d, SR.runs_for(algos, ["any"], FLAGS, "dhs", inf_too=False)) for d in many], False))
    sim = SR.simulated_inputs(rng, 50 if tier == "quick" else 600, 5, 4, 4, True)
    sections.append(("inputs simulated forward from the event model (segment losses, gains below the root), dup/hgt/sloss symbolic",
                     [(d, SR.runs_for(algos, ["any"], FLAGS, "dhs", inf_too=False)) for d in sim], False))
    if tier == "thorough":
        # one structural family completely: caterpillar object tree on 4 leaves, each leaf in its own species of a caterpillar species tree,
        # every non-empty subset of 4 families (in one common order) on every leaf: 15^4 inputs
        fam4 = "abcd"
        subs = [[f for f, b in zip(fam4, bits) if b] for bits in itertools.product([0, 1], repeat=4) if any(bits)]
        base = {"ot": ((("g0", "g1"), "g2"), "g3"), "st": ((("A", "B"), "C"), "D"), "leafmap": {"g0": "A", "g1": "B", "g2": "C", "g3": "D"}}
        family = [dict(base, leafsyn=dict(zip(["g0", "g1", "g2", "g3"], combo))) for combo in itertools.product(subs, repeat=4)]
        sections.append(("complete family: 4-leaf caterpillar, identity leaf assignment, every 4-family leaf content (15^4 inputs), dup/sloss symbolic",
                         [(d, [{"algo": "ext_spfs", "policy": "any", "sym": ["dup", "sloss"], "fixed": {"spe": 0, "floss": 1, "hgt": 1},
                                "flags": sorted(FLAGS), "coherent": True}]) for d in family], True))
    sections = [s for s in sections if s[1]]
    return sr_main.run(
        PROP, tier, seed, sections, ["ordered", "dp"],
        bounds={"deep": "quick 120 / thorough 1200 seeded 4-5-leaf x 3-4-family inputs (dup, hgt, sloss symbolic); thorough: the complete 15^4 family "
                        "(4-leaf caterpillar, identity assignment, every leaf content over 4 families in one order) with dup, sloss symbolic",
                "many families": "quick 6 / thorough 40 seeded 2-3-leaf inputs over 9-10 families in one common order",
                "call history": "quick 10 / thorough 80 seeded 3-leaf inputs explored after earlier concrete calls in a fresh interpreter",
                "inputs": "quick: 140 seeded 2-3-leaf inputs (1-3 species leaves, 1-3 families, 30% mutually inconsistent orders, 25% with a prescribed "
                          "root order) + 24 seeded 4-leaf inputs; thorough: every 3-leaf/2-species/2-family and 2-leaf/2-species/3-family input (every leaf "
                          "assignment, every duplicate-free leaf sequence) + 400 seeded 3-leaf + 200 seeded 4-leaf + 50 seeded 4-5-leaf/4-family inputs",
                "costs": "spe, dup, hgt, floss, sloss: all non-negative integers with spe + 2*sloss <= dup + 2*floss (sloss = 0 included); second run "
                         "hgt = infinity.inf; largest inputs: dup, hgt, sloss symbolic with spe = 0, floss = 1",
                "oracle": "every valid species mapping x every compatible root order (or the prescribed one) x every labelling with child a "
                          "subsequence of parent; minimum per event signature by memoised exhaustive recursion"},
        explanation="Bounded symbolic verification: the ordered solvers run on affine symbolic costs; every feasible cost ordering is explored and on "
                    "every path z3 proves the returned total no dearer than every solution of an independent enumerator (mappings x root orders x "
                    "labellings), for all cost vectors in the coherent region; emptiness is compared with the oracle's.",
        rule="one evaluation = one structural input explored for ext_spfs + base_spfs, any + all, finite symbolic and infinite transfer cost; "
             "non-trivial = the exploration forked on a cost comparison",
        outside=["cost vectors outside the coherent region (F-COHERENCE)", "inputs beyond the stated sizes", "leaf syntenies that are empty or repeat a family",
                 "multifurcating trees (C08)"],
        budget=budget, max_paths=mp, budget_s=bs)


if __name__ == "__main__":
    sys.exit(main())
