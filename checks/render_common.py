"""Shared harness for the drawing checks (C13-C15): symbolic node sizes through a stub measurer."""
from fractions import Fraction

from engine import harness as H
from engine.forksym import Ctx, Inconclusive, Lin
from engine.oracles import labels as LB
from engine.oracles import recon as RC
from checks import dp_common as D

import superrec2.render.layout as LAYOUT
import superrec2.render.tikz as TIKZ
from superrec2.model.reconciliation import EdgeEvent, NodeEvent, ReconciliationOutput, SuperReconciliationOutput
from superrec2.render.model import DrawParams, Orientation, PseudoGene
from superrec2.utils.tex import MeasureBox

STUBS = H.STUBS + ["render.layout.measure_nodes -> stub returning MeasureBox(w_i, h_i, 0) per requested node in request order "
                   "(TeX is absent; the property prescribes a stub measurer)"]
PARAM_NAMES = ["species_branch_padding", "gene_branch_spacing", "trunk_overhead", "min_subtree_spacing", "level_spacing"]
KINDS = [NodeEvent.LEAF, NodeEvent.SPECIATION, NodeEvent.DUPLICATION, NodeEvent.HORIZONTAL_TRANSFER, EdgeEvent.FULL_LOSS]
DEFAULT_COSTS = {"spe": 0, "dup": 1, "hgt": 1, "floss": 1, "sloss": 1}


class Measurer:
    """Stub for render.layout.measure_nodes."""

    def __init__(self, sizes, per_kind, swap=False, split=False):
        self.sizes, self.per_kind, self.swap, self.split = sizes, per_kind, swap, split
        self.requests = []

    def __call__(self, nodes, params):
        nodes = list(nodes)
        self.requests.append(nodes)
        out = []
        for i, (kind, _name) in enumerate(nodes):
            w, h = self.sizes[KINDS.index(kind)] if self.per_kind else self.sizes[i]
            if self.swap:
                w, h = h, w
            if self.split:
                # TeX boxes have a depth below the baseline: the same overall height split 1/3 above, 2/3 below
                out.append(MeasureBox(width=w, height=h / 3, depth=h - h / 3))
            else:
                out.append(MeasureBox(width=w, height=h, depth=0))
        return out


def build_rec(case, m, syn=None, ordered=None, costs=None, inp=None):
    """inp: reuse an existing input object (several reconciliations of one input share its trees, as the results of one solver call do)."""
    inp = inp if inp is not None else case.build(costs or DEFAULT_COSTS)
    onode = {n.name: n for n in inp.object_tree.traverse()}
    snode = {n.name: n for n in inp.species_lca.tree.traverse()}
    mapping = {onode[case.O.name[k]]: snode[case.S.name[v]] for k, v in m.items()}
    if syn is None:
        return ReconciliationOutput(inp, mapping), onode, snode
    syns = {onode[case.O.name[k]]: (list(v) if ordered else set(v)) for k, v in syn.items()}
    return SuperReconciliationOutput(input=inp, object_species=mapping, syntenies=syns, ordered=ordered), onode, snode


def loss_species(case, m, ev, kept):
    """Oracle: multiset of species in which a full loss occurs (one entry per loss), as a dict species -> count."""
    O, S = case.O, case.S
    out = {}
    for u, kind in ev.items():
        l, r = O.children[u]
        s = m[u]
        if kind == "T":
            edges = [(l if kept[u] == 0 else r)]
        else:
            edges = [l, r]
        for c in edges:
            t = m[c]
            # species strictly above the child's species, up to (S: strictly below; D/T: including) the node's species
            while t != s:
                t = S.parent[t]
                if t == s and kind == "S":
                    break
                out[t] = out.get(t, 0) + 1
    return out


def make_ctx(n_branches, per_kind, sym_params, max_paths, budget_s):
    names = []
    if per_kind:
        for k in ("leaf", "spe", "dup", "hgt", "loss"):
            names += [f"w_{k}", f"h_{k}"]
    else:
        for i in range(n_branches):
            names += [f"w{i}", f"h{i}"]
    if sym_params:
        names += PARAM_NAMES
    ctx = Ctx([(n, "Real", "pos") for n in names], max_paths=max_paths, budget_s=budget_s)
    ctx.allow_float = True      # tikz.render prints coordinates with round()/format(); no branch depends on the printed digits
    nb = 5 if per_kind else n_branches
    sizes = [(ctx.var(names[2 * i]), ctx.var(names[2 * i + 1])) for i in range(nb)]
    params = {p: ctx.var(p) for p in PARAM_NAMES} if sym_params else {}
    return ctx, sizes, params


def concrete_sizes(values, n_branches, per_kind, sym_params):
    """values: dict name -> Fraction (solver model) -> (sizes list, params dict) with exact rationals."""
    names = []
    if per_kind:
        for k in ("leaf", "spe", "dup", "hgt", "loss"):
            names += [f"w_{k}", f"h_{k}"]
    else:
        for i in range(n_branches):
            names += [f"w{i}", f"h{i}"]
    nb = 5 if per_kind else n_branches
    sizes = [(Fraction(values[names[2 * i]]), Fraction(values[names[2 * i + 1]])) for i in range(nb)]
    params = {p: Fraction(values[p]) for p in PARAM_NAMES} if sym_params else {}
    return sizes, params


def run_layout(rec, orientation, sizes, per_kind, params, swap=False, render=True, split=False):
    """Run the real layout (and renderer) with the stub measurer.  Returns (layout, tikz text or None, measurer)."""
    meas = Measurer(sizes, per_kind, swap, split)
    saved = LAYOUT.measure_nodes
    LAYOUT.measure_nodes = meas
    try:
        dp = DrawParams(orientation=orientation, **params)
        lay = LAYOUT.compute(rec, dp)
        text = TIKZ.render(rec, lay, dp) if render else None
    finally:
        LAYOUT.measure_nodes = saved
    return lay, text, meas


def draw_prior(case, inp, prior_m):
    """History: ANOTHER reconciliation of the same input object is laid out and rendered first (vertical and horizontal, unit sizes) -
    what drawing every solution of an 'all' result does.  Its own correctness is some other item's business; failures are ignored here."""
    if prior_m is None:
        return
    rec0, _, _ = build_rec(case, {int(k): v for k, v in prior_m.items()}, inp=inp)
    unit = [(1, 1)] * len(KINDS)
    for o in (Orientation.VERTICAL, Orientation.HORIZONTAL):
        try:
            run_layout(rec0, o, unit, True, {}, render=True)
        except Exception:
            pass


def frac_str(values):
    return {k: (str(v)) for k, v in values.items()}


def unfrac(values):
    return {k: Fraction(v) for k, v in values.items()}


def documented_names(desc):
    """Rename object leaves gK to the documented <species>_<id> convention (x_K): the drawing code splits leaf names at '_'."""
    mp = {l: f"x_{i}" for i, l in enumerate(sorted(desc["leafmap"]))}

    def ren(t):
        return mp[t] if isinstance(t, str) else tuple(ren(c) for c in t)

    d = dict(desc)
    d["ot"] = ren(H.totuple(desc["ot"]))
    d["leafmap"] = {mp[k]: v for k, v in desc["leafmap"].items()}
    if desc.get("leafsyn"):
        d["leafsyn"] = {mp[k]: v for k, v in desc["leafsyn"].items()}
    return d
