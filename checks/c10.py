"""C10 - the algorithms agree with each other where their models coincide.

Engine A, paired executions: two algorithms run on the same symbolic cost vector inside one path
exploration (the second under the path condition of the first); z3 proves the relation between the
two reported minima for every cost vector of the path:
  ext_spfs <= base_spfs, superdtl <= base_uspfs, superdtl <= ext_spfs, base_uspfs <= base_spfs,
  thl <= cost(lca) (equality when hgt = inf); single shared family on every leaf:
  ext_spfs = superdtl = thl and base_spfs = base_uspfs = cost(lca).
No oracle is involved, so inputs well beyond brute-force reach are used.
"""
import random
import sys

import z3
from infinity import inf

from engine import harness as H
from engine import runner as R
from engine.forksym import Inconclusive, Lin
from checks import dp_common as D
from checks import sr_common as SR

PROP = "C10"

REL_MULTI = [("ext_spfs", "base_spfs", "le"), ("superdtl", "base_uspfs", "le"), ("superdtl", "ext_spfs", "le"),
             ("base_uspfs", "base_spfs", "le"), ("thl", "lca", "le")]
REL_SINGLE = [("ext_spfs", "superdtl", "eq"), ("superdtl", "thl", "eq"), ("base_spfs", "base_uspfs", "eq"), ("base_uspfs", "lca", "eq")]
REL_PLAIN = [("thl", "lca", "le")]


def min_cost(algo, inp):
    res = D.run_algo(algo, inp, "any")
    if not res:
        return None
    return res[0].cost()


def isinf(v):
    return not isinstance(v, (Lin, int)) and v == inf


def relation_holds_concrete(a, b, rel):
    if a is None or b is None:
        return not (rel == "le" and a is None and b is not None) and not (rel == "eq" and (a is None) != (b is None))
    if isinf(a) or isinf(b):
        return (isinf(a) and isinf(b)) if rel == "eq" else (isinf(b) or not isinf(a))
    return a <= b if rel == "le" else a == b


def concrete_failures(desc, A, B, rel, costs):
    case = H.Case(desc)
    a = min_cost(A, case.build(costs))
    b = min_cost(B, case.build(costs))
    if relation_holds_concrete(a, b, rel):
        return []
    return [f"min({A}) = {a}, min({B}) = {b}: expected {A} {'<=' if rel == 'le' else '=='} {B}"]


def replay(data):
    cf = concrete_failures(data["desc"], data["A"], data["B"], data["rel"], H.cost_unjson(data["costs"]))
    for t in cf:
        print("  reproduced:", t)
    return bool(cf)


def worker(item):
    desc, sym, fixed = item["desc"], item["sym"], H.cost_unjson(item["fixed"])
    case = H.Case(desc)
    out = dict(paths=0, obligations=0, discharged=0, violations=[], sample=None, solver_queries=0, solver_s=0.0, forks=0)
    sup = case.leafsyn is not None
    try:
        for A, B, rel in item["relations"]:
            if fixed.get("hgt") is inf and (A, B) == ("thl", "lca"):
                rel = "eq"
            ctx, costs = H.cost_ctx(sym, fixed=fixed, coherent=True, with_sloss=sup, max_paths=item["max_paths"], budget_s=item["budget_s"])
            inpA, inpB = case.build(costs), case.build(costs)
            for _ in ctx.paths():
                a = min_cost(A, inpA)
                b = min_cost(B, inpB)
                out["obligations"] += 1
                model, ok = None, True
                if a is None or b is None or isinf(a) or isinf(b):
                    ok = relation_holds_concrete(a, b, rel)
                else:
                    d = (a + ctx.const(0)) - (b + ctx.const(0))
                    model = ctx.prove(ctx.z(d) <= 0 if rel == "le" else ctx.z(d) == 0)
                    ok = model is None
                if ok:
                    out["discharged"] += 1
                else:
                    cc = H.concrete_costs(costs, model if model is not None else ctx.model_values())
                    cf = concrete_failures(desc, A, B, rel, cc)
                    out["violations"].append({
                        "kind": "relation", "text": f"{A} {rel} {B} fails: {a} vs {b}; input {desc}; costs {H.cost_json(cc)}; concrete: {cf}",
                        "signature": {"kind": "relation", "A": A, "B": B, "desc": desc},
                        "data": {"desc": desc, "A": A, "B": B, "rel": rel, "costs": H.cost_json(cc)}, "confirmed": bool(cf)})
                    break
                if out["sample"] is None and ctx.npaths >= 2:
                    out["sample"] = {"input": desc, "relation": f"min({A}) {'<=' if rel == 'le' else '=='} min({B})", "symbolic": sym,
                                     "fixed": H.cost_json(fixed), "path_condition": ctx.pc_text(8), "min_A": repr(a), "min_B": repr(b)}
            st = ctx.stats()
            for k, kk in (("paths", "paths"), ("solver_queries", "solver_queries"), ("solver_s", "solver_s"), ("forks", "forks")):
                out[k] += st[kk]
    except Inconclusive as e:
        out["status"] = "inconclusive"
        out["reason"] = str(e)
    out["nontrivial"] = out["forks"] > 0
    out["item"] = desc
    return out


def single_family(d):
    d = dict(d)
    d["leafsyn"] = {l: ["a"] for l in d["leafmap"]}
    return d


def main(argv=None):
    tier, seed = R.tier_and_seed(argv)
    rng = random.Random(seed)
    q = tier == "quick"
    rep = R.Report(PROP, tier, seed)
    items = []

    def add(d, rels, symmode, section):
        sup = d.get("leafsyn") is not None
        for hinf in (False, True):
            if symmode == "full":
                sym = [n for n in (SR.FULL5 if sup else ["spe", "dup", "hgt", "floss"]) if not (hinf and n == "hgt")]
                fixed = {"hgt": "inf"} if hinf else {}
            else:
                sym = [n for n in (SR.DHS if sup else ["dup", "hgt"]) if not (hinf and n == "hgt")]
                fixed = {"spe": 0, "floss": 1, **({"hgt": "inf"} if hinf else {})}
            items.append({"desc": d, "relations": rels, "sym": sym, "fixed": fixed, "section": section,
                          "max_paths": 8000 if q else 40000, "budget_s": 150.0 if q else 900.0})

    n1, n2, n3, n4 = (40, 16, 30, 10) if q else (400, 200, 300, 120)
    for _ in range(n1):
        ordered = rng.random() < 0.5
        add(SR.random_super_input(rng, rng.randint(2, 3), rng.randint(1, 3), rng.randint(1, 3), ordered), REL_MULTI, "full", 0)
    for _ in range(n2):
        add(SR.random_super_input(rng, rng.randint(4, 5), rng.randint(2, 4), rng.randint(2, 3), rng.random() < 0.5), REL_MULTI, "dhs", 1)
    for _ in range(n3):
        add(single_family(D.random_plain_input(rng, rng.randint(2, 4 if q else 5), rng.randint(1, 4))), REL_SINGLE, "full" if rng.random() < 0.5 else "dhs", 2)
    for _ in range(n4):
        add(D.random_plain_input(rng, rng.randint(5, 8 if q else 10), rng.randint(3, 6 if q else 8)), REL_PLAIN, "dhs" if rng.random() < 0.7 else "full", 3)
    names = ["2-3 leaves, all relations, five symbolic costs", "4-5 leaves, all relations, dup/hgt/sloss symbolic",
             "single shared family: equalities", "5-10 leaves: thl vs lca"]
    order = sorted(range(len(items)), key=lambda i: -(len(str(items[i]["desc"]["ot"])) + 50 * (items[i]["section"] == 1)))
    res, sk = R.run_sharded(_w, [items[i] for i in order], 110 if q else 2400)
    for si, nm in enumerate(names):
        mine = [r for r in res if r.get("section") == si]
        rep.add_results(nm, mine, sum(1 for it in items if it["section"] == si) - len(mine), exhaustive=False)
    import superrec2.compute.reconciliation as m1, superrec2.compute.super_reconciliation as m5, superrec2.compute.unordered_super_reconciliation as m6
    rep.functions = R.safe_digest(lambda: R.source_digest(m1.reconcile_lca, m1.reconcile_thl, m5.sreconcile_base_spfs, m5.sreconcile_extended_spfs, m5._spfs,
                                    m5._compute_spfs_entry, m6.usreconcile_base_uspfs, m6.usreconcile_extended_uspfs, m6._uspfs, m6._compute_uspfs_entry))
    rep.bounds = {"inputs": f"seeded: {n1} inputs 2-3 leaves (all five costs symbolic), {n2} inputs 4-5 leaves (dup, hgt, sloss symbolic, spe=0, floss=1), "
                            f"{n3} single-family inputs 2-5 leaves, {n4} plain inputs 5-10 object leaves / 3-8 species for thl vs lca",
                  "costs": "non-negative integers in the coherent region; every input also with hgt = infinity.inf (thl = lca there)"}
    rep.assumptions = ["minima are the package's own cost() of the first returned solution (C06 ties cost() to the model, C05 ties all returned costs together)"]
    rep.stubs = H.STUBS
    rep.outside = ["inputs beyond the stated sizes", "cost vectors outside the coherent region"]
    return rep.finish(
        explanation="Paired symbolic executions: two algorithms run on the same symbolic cost vector within one exploration and z3 proves the stated "
                    "inequality/equality between their minima on every joint path, for all cost vectors of the path.",
        rule="one evaluation = one (input, cost mode) with all applicable relations; non-trivial = exploration forked on a cost comparison")


def _w(item):
    r = worker(item)
    r["section"] = item["section"]
    return r


if __name__ == "__main__":
    sys.exit(main())
