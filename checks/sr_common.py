"""Generic symbolic exploration of any of the seven algorithms against the oracles.

explore() runs one (input, algorithm, policy, cost mode) under engine A and discharges, on every
feasible path, the obligations selected by `flags`:
  valid   - every returned solution is structurally valid (C04 wording) and finitely priced
  opt     - the returned cost is <= every oracle form (C01-C03)
  empty   - the result is empty iff the oracle has no valid solution
  allset  - under 'all': returned solutions pairwise distinct, equal cost, and every oracle
            solution not returned is strictly dearer (C05)
  anyall  - under 'any': exactly one solution, and it belongs to the 'all' result on the same path
"""
import itertools

import z3
from infinity import inf

from engine import harness as H
from engine.forksym import Inconclusive, Lin
from engine.oracles import labels as LB
from engine.oracles import recon as RC
from checks import dp_common as D

SUPER = ("base_spfs", "ext_spfs", "base_uspfs", "superdtl")

# --- observer of the unordered solvers' shared state (property C03 'state': lca_sets / gain_sets must not be mutated by decoding).
# No source hook: the two constructors are module attributes, rebound here to remember what they returned.
import superrec2.compute.unordered_super_reconciliation as _U

_WATCH = []


def _watching(fn):
    def wrapper(*a, **k):
        res = fn(*a, **k)
        _WATCH.append((fn.__name__.lstrip("_").replace("compute_", ""), res, {n: frozenset(v) for n, v in res.items()}))
        return res
    wrapper.__name__ = fn.__name__
    wrapper.__wrapped__ = fn
    return wrapper


if not hasattr(_U._compute_gain_sets, "__wrapped__"):
    _U._compute_gain_sets = _watching(_U._compute_gain_sets)
    _U._compute_lca_sets = _watching(_U._compute_lca_sets)


def shared_state_changes():
    """Entries of gain_sets / lca_sets that differ from what their constructor returned; clears the record."""
    out = []
    for what, live, snap in _WATCH:
        for node, before in snap.items():
            if frozenset(live[node]) != before:
                out.append(f"{what}[{node.name}] was {sorted(before)} when computed and is {sorted(live[node])} after the solver returned")
    del _WATCH[:]
    return out
BASE = ("base_spfs", "base_uspfs", "lca")


def is_super(algo):
    return algo in SUPER


class PolyOracle:
    """Oracle for inputs with polytomies: solutions are recounted on the (binary) trees they refer to, which must be
    refinements of the input trees; forms are the union over all refinement pairs produced by the SAT clade models."""

    def __init__(self, case, algo):
        self.case = case
        self.algo = algo
        self._forms = None
        self.recs = []

    def forms(self):
        if self._forms is None:
            from engine.oracles import clades as CL
            forms = set()
            for ot in CL.refinements(self.case.ot):
                for st in CL.refinements(self.case.st):
                    d = dict(self.case.desc)
                    d["ot"], d["st"] = ot, st
                    sub = D.Oracle(H.Case(d), restrict_lca=self.algo in BASE)
                    forms.update(sub.labelled_forms(D.ORDERED[self.algo]) if is_super(self.algo) else sub.plain_forms())
            self._forms = sorted(forms)
        return self._forms

    def recount(self, out, ordered=None):
        from engine.oracles import clades as CL
        for which, tree in (("object", out.input.object_tree), ("species", out.input.species_lca.tree)):
            names = [n.name for n in tree.traverse()]
            dup = sorted(set(x for x in names if names.count(x) > 1))
            if dup or any(not x for x in names):
                # the input's nodes were uniquely named; a refined tree in which a name designates two nodes has lost the node that name stood for
                return None, f"the solution's {which} tree has unnamed nodes or repeated names {dup}"
        c = D.case_from_output(out, self.case)
        for which, orig, got in (("object", self.case.ot, c.ot), ("species", self.case.st, c.st)):
            if not D.is_binary_tuple(got):
                return None, f"the solution's {which} tree is not binary"
            if sorted(CL._leaves(orig)) != sorted(CL._leaves(got)):
                return None, f"the solution's {which} tree has different leaves"
            if not CL.clades_of_tuple(orig) <= CL.clades_of_tuple(got):
                return None, f"the solution's {which} tree lost a clade of the input"
        return D.recount_case(c, out, ordered)


def is_poly(case):
    return not (D.is_binary_tuple(case.ot) and D.is_binary_tuple(case.st))


def oracle_for(case, algo):
    if is_poly(case):
        return PolyOracle(case, algo)
    return D.Oracle(case, restrict_lca=algo in BASE)


def oracle_forms(orc, algo, needed=True):
    if isinstance(orc, PolyOracle):
        return orc.forms() if needed else None
    if is_super(algo):
        return orc.labelled_forms(D.ORDERED[algo])
    return orc.plain_forms()


def solution_key(case, out, algo):
    m = tuple(sorted(case.mapping_of(out).items()))
    if is_super(algo):
        syn = case.syn_of(out)
        if D.ORDERED[algo]:
            return m, tuple(sorted((k, tuple(v)) for k, v in syn.items()))
        return m, tuple(sorted((k, tuple(sorted(v))) for k, v in syn.items()))
    return m, None


def all_solutions(case, orc, algo, cap=200000):
    """Every oracle solution with its count vector, keyed like solution_key (C05).  Unordered:
    canonical labellings only (property wording)."""
    sols = {}
    if not is_super(algo):
        for m, cnt, ev, kept in orc.recs:
            sols[(tuple(sorted(m.items())), None)] = cnt
        return sols
    ordered = D.ORDERED[algo]
    if ordered:
        labs = list(LB.ordered_labellings(case.O, case.leafsyn, case.rootsyn))
    else:
        labs = [s for s, canon in LB.unordered_labellings(case.O, case.leafsyn) if canon]
    if len(labs) * len(orc.recs) > cap:
        raise Inconclusive("oracle solution set above the cap")
    for m, cnt, ev, kept in orc.recs:
        mk = tuple(sorted(m.items()))
        for syn in labs:
            if ordered:
                n = LB.ordered_sloss(case.O, ev, kept, syn)
                if n is None:
                    continue
                sk = tuple(sorted((k, tuple(v)) for k, v in syn.items()))
            else:
                n = LB.unordered_sloss(case.O, ev, kept, syn)
                sk = tuple(sorted((k, tuple(sorted(v))) for k, v in syn.items()))
            sols[(mk, sk)] = cnt + (n,)
    return sols


# ----------------------------------------------------------------------------- call histories
PRIOR_COSTS = [{"spe": 0, "dup": 1, "hgt": 1, "floss": 1, "sloss": 1}, {"spe": 0, "dup": 2, "hgt": 3, "floss": 1, "sloss": 2}]


def prior_inputs(desc):
    """The earlier calls of a 'call history' run: the same input under the default costs, then a sibling input (leaf syntenies rotated
    among the leaves, leaf species rotated) under another cost vector of the coherent region."""
    d2 = dict(desc)
    leaves = sorted(desc["leafmap"])
    rot = leaves[1:] + leaves[:1]
    d2["leafmap"] = {l: desc["leafmap"][r] for l, r in zip(leaves, rot)}
    if desc.get("leafsyn"):
        d2["leafsyn"] = {l: desc["leafsyn"][r] for l, r in zip(leaves, rot)}
        d2.pop("rootsyn", None)
    return [(desc, PRIOR_COSTS[0]), (d2, PRIOR_COSTS[1])]


def run_priors(desc, algo):
    for d, c in prior_inputs(desc):
        for pol in ("any", "all"):
            try:
                D.run_algo(algo, H.Case(d).build(c), pol)
            except Exception:
                pass    # a failing earlier call is reported by the ordinary sections, not here
    # an input created WITHOUT a cost vector gets the documented defaults; the program then tunes that input's costs in place
    try:
        raw = _default_cost_input(desc)
        D.run_algo(algo, raw, "any")
        for ev in list(raw.costs):
            raw.costs[ev] = raw.costs[ev] * 3 + 1
    except Exception:
        pass


DOCUMENTED_DEFAULTS = {"SPECIATION": 0, "DUPLICATION": 1, "HORIZONTAL_TRANSFER": 1, "FULL_LOSS": 1, "SEGMENTAL_LOSS": 1}


def _default_cost_input(desc):
    from superrec2.model.reconciliation import ReconciliationInput, SuperReconciliationInput
    case = H.Case(desc)
    d = {"object_tree": case.O.newick(), "species_tree": case.S.newick(), "leaf_object_species": case.leafmap}
    if case.leafsyn is not None:
        d["leaf_syntenies"] = dict(case.leafsyn)
        return SuperReconciliationInput.from_dict(d)
    return ReconciliationInput.from_dict(d)


def default_cost_fails(desc):
    """An input created without a cost vector must carry the documented defaults, whatever earlier inputs went through."""
    got = {ev.name: v for ev, v in _default_cost_input(desc).costs.items()}
    return [] if got == DOCUMENTED_DEFAULTS else [f"an input created without costs carries {got}, the documented defaults are {DOCUMENTED_DEFAULTS}"]


def shared_objects_prior(inp, algo):
    """Another input built on the SAME tree objects and ancestry structure (leaf assignment rotated, another cost vector) is solved first:
    many gene families against one species tree."""
    import dataclasses
    leaves = sorted(inp.leaf_object_species, key=lambda n: n.name)
    targets = [inp.leaf_object_species[l] for l in leaves]
    costs = {ev: PRIOR_COSTS[1][next(n for n, key in H.COST_KEYS.items() if key == ev.name)] for ev in inp.costs}
    for assignment in ([targets[0]] * len(targets), targets[1:] + targets[:1]):      # everything in one species; rotated
        sib = dataclasses.replace(inp, leaf_object_species=dict(zip(leaves, assignment)), costs=dict(costs))
        for pol in ("any", "all"):
            try:
                D.run_algo(algo, sib, pol)
            except Exception:
                pass


def _swap_pair(case):
    """Two object leaves with different parents (first and last by name), or None."""
    ls = sorted(case.O.leaves, key=lambda i: case.O.name[i])
    if len(ls) >= 3 and case.O.parent[ls[0]] != case.O.parent[ls[-1]]:
        return case.O.name[ls[0]], case.O.name[ls[-1]]
    return None


def build_inplace(case, algo, costs, data=True):
    """The same input OBJECT is first solved in another state - another cost vector, leaf syntenies rotated among the leaves, two object
    leaves exchanged in the tree - and is then edited IN PLACE into the input under test (cost dictionary, synteny dictionary, tree),
    the way a program sweeping costs or correcting its data does (the repository's own tests switch costs this way)."""
    pair = _swap_pair(case) if data else None       # data=False: only the cost dictionary differs between the two solves
    pre = dict(case.desc)
    if pair:
        pre["ot"] = D._rename(case.ot, {pair[0]: pair[1], pair[1]: pair[0]})
    leaves = sorted(case.leafmap)
    if data and case.leafsyn is not None and case.rootsyn is None:
        # other contents and another gene order: rotated among the leaves, reversed, last family dropped
        pre["leafsyn"] = {l: (list(reversed(case.leafsyn[r]))[:-1] or list(case.leafsyn[r])) for l, r in zip(leaves, leaves[1:] + leaves[:1])}
    inp = H.Case(pre).build(PRIOR_COSTS[1])
    for pol in ("any", "all"):
        try:
            D.run_algo(algo, inp, pol)
        except Exception:
            pass
    for ev in list(inp.costs):
        name = next(n for n, key in H.COST_KEYS.items() if key == ev.name)
        inp.costs[ev] = costs[name]
    if data and case.leafsyn is not None and case.rootsyn is None:
        for node in list(inp.leaf_syntenies):
            if node.is_leaf():
                inp.leaf_syntenies[node] = list(case.leafsyn[node.name]) if not isinstance(inp.leaf_syntenies[node], str) else "".join(case.leafsyn[node.name])
    if pair:
        x, y = inp.object_tree & pair[0], inp.object_tree & pair[1]
        px, py = x.up, y.up
        ix, iy = px.children.index(x), py.children.index(y)
        px.children[ix], py.children[iy] = y, x
        x.up, y.up = py, px
    return inp


def _fresh_process(payload, timeout):
    """Run checks.hist_proc in a fresh interpreter (clean module state of superrec2); returns the decoded JSON answer."""
    import json
    import subprocess
    import sys
    p = subprocess.run([sys.executable, "-m", "checks.hist_proc"], input=json.dumps(payload), capture_output=True, text=True, timeout=timeout)
    if p.returncode != 0:
        raise RuntimeError("hist_proc failed: " + p.stderr[-800:])
    return json.loads(p.stdout.strip().splitlines()[-1])


# ----------------------------------------------------------------------------- concrete re-check
def concrete_failures(desc, algo, policy, costs, flags, inplace=False, history=False):
    case = H.Case(desc)
    orc = oracle_for(case, algo)
    need = bool({"opt", "empty"} & set(flags))
    forms = oracle_forms(orc, algo, need)
    inp = build_inplace(case, algo, costs, data=(inplace != "costs")) if inplace else case.build(costs)
    extra = []
    if history and not inplace:
        shared_objects_prior(inp, algo)
        extra = [("defaults", t) for t in default_cost_fails(desc)]
    del _WATCH[:]
    try:
        res = D.run_algo(algo, inp, policy)
    except Exception as e:
        return [("exception", f"{type(e).__name__}: {e}")]
    fails = list(extra)
    changed = shared_state_changes()
    if changed and "valid" in flags:
        fails.append(("state", changed[0]))
    if forms is None:
        forms = []
        flags = set(flags) - {"opt", "empty"}
    finite = [H.form_value(costs, f) for f in forms]
    finite = [v for v in finite if v is not inf]
    sup_ = is_super(algo)
    finite_exists = bool(finite) or (not (sup_ and D.ORDERED[algo])) or bool(LB.root_orders(case.O, case.leafsyn, case.rootsyn))
    if not res:
        if forms and "empty" in flags:
            fails.append(("empty", "nothing returned although a valid solution exists"))
        return fails
    if not forms and "empty" in flags:
        fails.append(("nonempty", "a solution is returned although the oracle has none"))
    best = min(finite) if finite else inf
    vals = []
    for out in res:
        cnt, why = orc.recount(out, D.ORDERED[algo] if is_super(algo) else None)
        if cnt is None:
            if "valid" in flags:
                fails.append(("invalid", why))
            continue
        v = H.form_value(costs, cnt)
        vals.append(v)
        if v is inf and finite_exists and "valid" in flags:
            fails.append(("infinite", "returned solution has infinite cost"))
        elif "opt" in flags and v is not inf and v > best:
            fails.append(("suboptimal", f"returned cost {v} > optimum {best}"))
        elif "opt" in flags and v is inf and finite:
            fails.append(("suboptimal", "returned solution has infinite cost although a finite one exists"))
    if "allset" in flags and policy == "all":
        keys = [solution_key(case, o, algo) for o in res]
        if len(set(keys)) != len(keys):
            fails.append(("duplicate", "a solution is returned twice"))
        if len(set(map(str, vals))) > 1:
            fails.append(("unequal", f"returned solutions have different costs {sorted(set(map(str, vals)))}"))
        sols = all_solutions(case, orc, algo)
        if vals:
            ret = min(v for v in vals)
            for k, cnt in sols.items():
                if k not in set(keys) and H.form_value(costs, cnt) is not inf and H.form_value(costs, cnt) <= ret:
                    fails.append(("missing", f"optimal solution not returned: mapping {case.mapping_names(dict(k[0]))} "
                                  f"labelling {k[1]} cost {H.form_value(costs, cnt)}"))
                    break
    if "anyall" in flags and policy == "any":
        if len(res) != 1:
            fails.append(("anycount", f"'any' returned {len(res)} solutions"))
        else:
            allres = D.run_algo(algo, inp if inplace else case.build(costs), "all")
            if solution_key(case, res[0], algo) not in {solution_key(case, o, algo) for o in allres}:
                fails.append(("anynotinall", "the 'any' solution is not in the 'all' result"))
    return fails


def violation(prop, kind, text, desc, algo, policy, costs_conc, mode, flags, prior=False):
    data = {"desc": desc, "algo": algo, "policy": policy, "costs": H.cost_json(costs_conc), "expect": kind, "flags": sorted(flags)}
    if prior:
        # the history (earlier calls, then this call with plain numbers) is replayed in a fresh interpreter
        data["prior"] = prior
        cf = [tuple(x) for x in _fresh_process({"mode": "replay", "data": data}, 600)]
        text = ("after the same input object was solved in another state (costs" + ("" if prior == "inplace-costs" else ", leaf syntenies, two leaves of the object tree") + ") and edited in place: " if prior in ("inplace", "inplace-costs") else
                "after earlier calls in the same interpreter (same input at default costs; sibling input at other costs): ") + text
    else:
        cf = concrete_failures(desc, algo, policy, costs_conc, flags)
    return {
        "kind": kind,
        "text": f"{algo}/{policy} [{mode}]: {text}; input {desc}; costs {H.cost_json(costs_conc)}; concrete re-run: {cf[:2]}",
        "signature": {"kind": kind, "algo": algo, "policy": policy, "desc": desc, "costs": H.cost_json(costs_conc), **({"history": prior} if prior else {})},
        "data": data, "confirmed": any(k == kind for k, _ in cf),
    }


def replay(data):
    if data.get("prior") and data["prior"] not in ("inplace", "inplace-costs"):
        run_priors(data["desc"], data["algo"])      # `vcheck replay` is itself a fresh interpreter
    fails = concrete_failures(data["desc"], data["algo"], data["policy"], H.cost_unjson(data["costs"]), set(data["flags"]),
                              inplace={"inplace": "data", "inplace-costs": "costs"}.get(data.get("prior"), False), history=bool(data.get("prior")))
    for k, t in fails:
        print(f"  reproduced: {k}: {t}")
    return any(k == data.get("expect") for k, _ in fails)


# ----------------------------------------------------------------------------- symbolic exploration
def explore(prop, desc, algo, policy, sym, fixed, flags, max_paths=20000, budget_s=600.0, coherent=True, prior=False):
    """
    :param sym: list of symbolic cost names; fixed: dict of concrete values for the others
    :returns: result dict (paths, obligations, discharged, violations, ...)
    """
    if prior and prior not in ("inplace", "inplace-costs"):
        run_priors(desc, algo)       # only ever reached inside checks.hist_proc (fresh interpreter)
    case = H.Case(desc)
    orc = oracle_for(case, algo)
    flags = set(flags)
    forms = oracle_forms(orc, algo, bool({"opt", "empty"} & flags))
    if forms is None:
        forms = []
        flags -= {"opt", "empty"}
    sup = is_super(algo)
    ordered = D.ORDERED[algo] if sup else None
    ctx, costs = H.cost_ctx(sym, fixed=fixed, coherent=coherent, with_sloss=sup, max_paths=max_paths, budget_s=budget_s)
    inp = build_inplace(case, algo, costs, data=(prior == "inplace")) if prior in ("inplace", "inplace-costs") else case.build(costs)
    if prior and prior not in ("inplace", "inplace-costs"):
        shared_objects_prior(inp, algo)
    mode = "sym=" + ",".join(sym) + (" hgt=inf" if costs["hgt"] is inf else "")
    out = dict(paths=0, obligations=0, discharged=0, violations=[], sample=None)
    sols = None
    if "allset" in flags and policy == "all":
        sols = all_solutions(case, orc, algo)
    finite_exists = (not (sup and ordered)) or bool(LB.root_orders(case.O, case.leafsyn, case.rootsyn))

    def viol(kind, text, model=None):
        if len(out["violations"]) >= 6:
            return
        cc = H.concrete_costs(costs, model if model is not None else ctx.model_values())
        out["violations"].append(violation(prop, kind, text, desc, algo, policy, cc, mode, flags, prior))

    def ob(ok):
        out["obligations"] += 1
        if ok:
            out["discharged"] += 1
        return ok

    if prior and prior not in ("inplace", "inplace-costs"):
        dflt = default_cost_fails(desc)
        out["obligations"] += 1
        if dflt:
            out["violations"].append(violation(prop, "defaults", dflt[0], desc, algo, policy, PRIOR_COSTS[0], mode, flags, prior))
        else:
            out["discharged"] += 1
    for _ in ctx.paths():
        del _WATCH[:]
        try:
            res = D.run_algo(algo, inp, policy)
        except Exception as e:
            out["obligations"] += 1
            viol("exception", f"{type(e).__name__}: {e}")
            continue
        ob(True)
        if "valid" in flags and algo in ("base_uspfs", "superdtl"):
            changed = shared_state_changes()
            if not ob(not changed):
                viol("state", "the solver changed its shared family sets while decoding: " + changed[0])
        if not res:
            if "empty" in flags:
                # empty is right only if no oracle form is finite on this path
                finite = [f for f in forms if H.form_z(ctx, costs, f) is not None]
                if not ob(not finite):
                    viol("empty", "nothing returned although a valid solution exists")
            continue
        if not forms and "empty" in flags:
            if not ob(False):
                viol("nonempty", "a solution is returned although the oracle has none")
            continue
        counts = []
        for o in res:
            cnt, why = orc.recount(o, ordered)
            if cnt is None:
                if "valid" in flags:
                    ob(False)
                    viol("invalid", why)
                counts.append(None)
                continue
            if "valid" in flags:
                ob(True)
            counts.append(cnt)
        good = [c for c in counts if c is not None]
        if not good:
            continue
        # a finitely priced solution exists whenever a solution exists at all: the LCA mapping needs no transfer (ordered solvers: provided
        # some root order is compatible with the leaves, which does not depend on the refinement)
        anyfinite = any(H.form_z(ctx, costs, f) is not None for f in forms) or finite_exists
        for cnt in sorted(set(good)):
            finite_L = H.form_z(ctx, costs, cnt) is not None
            if "valid" in flags:
                if not ob(finite_L or not anyfinite):
                    viol("infinite", f"returned solution {cnt} has infinite cost although a finite one exists")
            if "opt" in flags and finite_L:
                ok, model, _n = D.prove_le_all(ctx, costs, cnt, forms)
                if not ob(ok):
                    viol("suboptimal", f"returned count vector {cnt} is not minimal", model)
            elif "opt" in flags and anyfinite and "valid" not in flags:
                ob(False)
                viol("suboptimal", f"returned solution {cnt} has infinite cost although a finite one exists")
        if "allset" in flags and policy == "all":
            keys = [solution_key(case, o, algo) for o in res]
            if not ob(len(set(keys)) == len(keys)):
                viol("duplicate", "a solution is returned twice")
            L = H.form_z(ctx, costs, good[0])
            # all returned costs equal on the whole path
            eqs = []
            for cnt in set(good[1:]):
                F = H.form_z(ctx, costs, cnt)
                if (L is None) != (F is None):
                    eqs.append(z3.BoolVal(False))
                elif L is not None:
                    d = L - F
                    eqs.append(ctx.z(d) == 0 if isinstance(d, Lin) else z3.BoolVal(d == 0))
            if eqs:
                m = ctx.prove(z3.And(*eqs))
                if not ob(m is None):
                    viol("unequal", "returned solutions do not have the same cost", m)
            # completeness: every oracle solution not returned is strictly dearer
            if L is not None:
                ks = set(keys)
                missing_forms = {}
                for k, cnt in sols.items():
                    if k not in ks:
                        missing_forms.setdefault(cnt, k)
                cl = []
                for cnt in missing_forms:
                    F = H.form_z(ctx, costs, cnt)
                    if F is None:
                        continue
                    d = F - L
                    cl.append(ctx.z(d) > 0 if isinstance(d, Lin) else z3.BoolVal(d > 0))
                if cl:
                    m = ctx.prove(z3.And(*cl))
                    if not ob(m is None):
                        viol("missing", "an oracle solution that is not returned is optimal too", m)
        if "anyall" in flags and policy == "any":
            if not ob(len(res) == 1):
                viol("anycount", f"'any' returned {len(res)} solutions")
            else:
                allres = D.run_algo(algo, inp, "all")     # same PC; may fork further, still a partition
                if not ob(solution_key(case, res[0], algo) in {solution_key(case, o, algo) for o in allres}):
                    viol("anynotinall", "the 'any' solution is not in the 'all' result")
        if out["sample"] is None and ctx.npaths >= 2:
            out["sample"] = {"input": desc, "algo": algo, "policy": policy, "costs": mode,
                             "path_condition": ctx.pc_text(), "returned_count_vectors": sorted(set(good)),
                             "oracle_forms": len(forms)}
        if len(out["violations"]) >= 3:
            break
    st = ctx.stats()
    out.update(paths=st["paths"], solver_queries=st["solver_queries"], solver_s=st["solver_s"], forks=st["forks"])
    return out


def merge(tot, r):
    for k in ("paths", "obligations", "discharged", "solver_queries", "solver_s", "forks"):
        tot[k] = tot.get(k, 0) + r.get(k, 0)
    tot.setdefault("violations", []).extend(r["violations"])
    if tot.get("sample") is None:
        tot["sample"] = r.get("sample")


def generic_worker(item):
    """item: {prop, desc, runs: [ {algo, policy, sym, fixed, flags} ], max_paths, budget_s}"""
    tot = dict(paths=0, obligations=0, discharged=0, solver_queries=0, solver_s=0.0, forks=0, violations=[], sample=None)
    try:
        for run in item["runs"]:
            if run.get("prior") and not item.get("_in_hist_proc"):
                # call-history run: one fresh interpreter per run (earlier concrete calls, then the symbolic exploration)
                sub = dict(item, runs=[run], _in_hist_proc=True)
                r = _fresh_process({"mode": "explore", "item": sub}, item.get("budget_s", 600.0) + 120)
                if r.get("status") == "inconclusive":
                    raise Inconclusive(r.get("reason", "inconclusive in the fresh interpreter"))
                if r.get("status") == "error":
                    raise RuntimeError(r.get("error"))
                merge(tot, r)
                continue
            r = explore(item["prop"], item["desc"], run["algo"], run["policy"], run["sym"], H.cost_unjson(run.get("fixed", {})),
                        set(run["flags"]), item.get("max_paths", 20000), item.get("budget_s", 600.0),
                        coherent=run.get("coherent", True), prior=run.get("prior") or False)
            merge(tot, r)
    except Inconclusive as e:
        tot["status"] = "inconclusive"
        tot["reason"] = str(e)
    tot["nontrivial"] = tot["forks"] > 0
    tot["item"] = item["desc"]
    return tot


# ----------------------------------------------------------------------------- input spaces (labelled)
def random_super_input(rng, no, ns, nf, ordered, rootsyn_p=0.0, consistent_p=0.8, variants=True):
    if rng.random() < 0.5:
        d = clade_family_input(rng, no, ns, nf, ordered, variants=False)       # families planted on clades (gains below the root)
    else:
        d = D.random_plain_input(rng, no, ns, variants=False)
        fams = "abcdef"[:nf]
        d["leafsyn"] = D.random_syntenies(rng, sorted(d["leafmap"]), fams, ordered, consistent_p)
    if rng.random() < 0.2:
        d["synstr"] = True        # leaf syntenies handed over as strings
    if ordered and rng.random() < rootsyn_p:
        used = sorted(set(g for s in d["leafsyn"].values() for g in s))
        from engine.oracles.trees import OTree
        from engine.harness import totuple
        orders = LB.root_orders(OTree(totuple(d["ot"]), "o"), d["leafsyn"])
        if orders:
            d["rootsyn"] = list(rng.choice(orders))
            if rng.random() < 0.4:
                # the prescribed root is a common SUPERsequence of the leaves: it may hold a family that no leaf carries
                d["rootsyn"].insert(rng.randrange(len(d["rootsyn"]) + 1), "x")
    return D.presentation_variants(d, rng) if variants else d


def clade_family_input(rng, no, ns, nf, ordered=False, variants=True):
    """Families planted on clades: each family picks an internal object node as its gain node and is carried by leaves on both sides of it
    (so gains happen below the root as often as at the root, which independent per-leaf sampling almost never produces)."""
    d = D.random_plain_input(rng, no, ns, variants=False)
    from engine.oracles.trees import OTree
    O = OTree(H.totuple(d["ot"]), "o")
    fams = [chr(ord("a") + i) for i in range(nf)]
    syn = {O.name[l]: [] for l in O.leaves}
    for f in fams:
        if not O.internals:
            break
        g = rng.choice(O.internals)
        sides = [[l for l in O.subtree(c) if not O.children[l]] for c in O.children[g]]
        carriers = set()
        for side in sides:
            k = rng.randint(1, len(side))
            carriers.update(rng.sample(side, k))
        for l in carriers:
            syn[O.name[l]].append(f)
    for l in syn:
        if not syn[l]:
            syn[l].append(rng.choice(fams))
    if ordered:
        order = fams[:]
        rng.shuffle(order)
        d["leafsyn"] = {l: [f for f in order if f in v] for l, v in syn.items()}
    else:
        d["leafsyn"] = {l: sorted(v) for l, v in syn.items()}
    return D.presentation_variants(d, rng) if variants else d


def simulated_inputs(rng, n, no_max, ns_max, nf, ordered, min_leaves=3):
    """n inputs from the forward simulator of the event model (dp_common.simulated_input)."""
    regimes = [{},                                                                       # balanced
               {"p_dup": 0.4, "p_hgt": 0.05, "p_loss": 0.05, "p_seg": 0.5, "p_gain": 0.3},   # paralog-rich: nested duplications inside few species
               {"p_dup": 0.1, "p_hgt": 0.35, "p_loss": 0.1}]                                  # transfer-rich
    out = []
    tries = 0
    while len(out) < n and tries < 50 * n:
        tries += 1
        d = D.simulated_input(rng, no_max, rng.randint(2, ns_max), nf, ordered, **regimes[tries % 3])
        if d is not None and len(d["leafmap"]) >= min_leaves:
            out.append(d)
    return out


def many_family_input(rng, no, ns, nf, ordered=True):
    """Few leaves, many families (one common order): bit masks beyond one byte."""
    d = D.random_plain_input(rng, no, ns)
    fams = [chr(ord("a") + i) for i in range(nf)]
    d["leafsyn"] = {}
    for l in sorted(d["leafmap"]):
        keep = [f for f in fams if rng.random() < 0.6] or [rng.choice(fams)]
        d["leafsyn"][l] = keep if ordered else sorted(keep)
    first = sorted(d["leafmap"])[0]
    d["leafsyn"][first] = sorted(set(d["leafsyn"][first]) | {fams[0], fams[-1]})   # the first and the last family do occur
    return d


def all_sequences(fams, ordered):
    out = []
    for k in range(1, len(fams) + 1):
        for comb in itertools.combinations(fams, k):
            if ordered:
                out += [list(p) for p in itertools.permutations(comb)]
            else:
                out.append(list(comb))
    return out


def exhaustive_super_inputs(no, ns, nf, ordered):
    """Every plane shape pair, leaf assignment and leaf synteny tuple over nf families."""
    seqs = all_sequences("abcdef"[:nf], ordered)
    for d in D.plain_inputs([no], [ns]):
        leaves = sorted(d["leafmap"])
        for combo in itertools.product(seqs, repeat=no):
            dd = dict(d)
            dd["leafsyn"] = dict(zip(leaves, combo))
            yield dd


FULL5 = ["spe", "dup", "hgt", "floss", "sloss"]
FULL4 = ["spe", "dup", "floss", "sloss"]
DHS = ["dup", "hgt", "sloss"]


def runs_for(algos, policies, flags, sym="full", inf_too=True, coherent=True):
    out = []
    for algo in algos:
        sup = is_super(algo)
        for pol in policies:
            if algo == "lca" and pol != "any":
                continue
            if sym == "full":
                s1 = FULL5 if sup else ["spe", "dup", "hgt", "floss"]
                s2 = FULL4 if sup else ["spe", "dup", "floss"]
                f1, f2 = {}, {"hgt": "inf"}
            else:
                s1 = DHS if sup else ["dup", "hgt"]
                s2 = ["dup", "sloss"] if sup else ["dup"]
                f1, f2 = {"spe": 0, "floss": 1}, {"spe": 0, "floss": 1, "hgt": "inf"}
            out.append({"algo": algo, "policy": pol, "sym": s1, "fixed": f1, "flags": sorted(flags), "coherent": coherent})
            if inf_too:
                out.append({"algo": algo, "policy": pol, "sym": s2, "fixed": f2, "flags": sorted(flags), "coherent": coherent})
    return out


HUGE_COSTS = [{"spe": 0, "dup": 10 ** 13, "hgt": 10 ** 13, "floss": 1, "sloss": 1},
              {"spe": 0, "dup": 10 ** 12, "hgt": 10 ** 12 + 1, "floss": 10 ** 12, "sloss": 10 ** 12},
              {"spe": 3, "dup": 2 ** 53 + 3, "hgt": 3 * (2 ** 53 + 3) + 1, "floss": 2 ** 53 + 3, "sloss": 2}]


def huge_cost_worker(item):
    """Concrete companion (no solver): the symbolic runs cover every integer cost vector PROVIDED the code keeps costs exact; a conversion to
    float (tolerance comparisons, float() round trips) would leave the encoding.  Three vectors with 13-16-digit integers make such code observable."""
    out = dict(paths=1, obligations=0, discharged=0, violations=[], solver_queries=0, solver_s=0.0, nontrivial=True, item=item["desc"])
    for algo in item["algos"]:
        for pol in item["policies"]:
            for costs in HUGE_COSTS:
                if not is_super(algo):
                    costs = dict(costs)
                out["obligations"] += 1
                cf = concrete_failures(item["desc"], algo, pol, costs, set(item["flags"]))
                if cf:
                    kind = cf[0][0]
                    out["violations"].append({
                        "kind": kind, "text": f"{algo}/{pol} with huge integer costs {costs}: {cf[:2]}; input {item['desc']}",
                        "signature": {"kind": kind, "algo": algo, "policy": pol, "desc": item["desc"], "costs": H.cost_json(costs)},
                        "data": {"desc": item["desc"], "algo": algo, "policy": pol, "costs": H.cost_json(costs), "expect": kind, "flags": sorted(item["flags"])},
                        "confirmed": True})
                    return out
                out["discharged"] += 1
    return out


def history_runs(algos, flags, policies=("any",)):
    """Runs of the call-history sections: five (four) symbolic costs, finite transfer cost, executed after earlier concrete calls
    in a fresh interpreter (prior_inputs)."""
    out = []
    for algo in algos:
        for pol in policies:
            for prior in (True, "inplace", "inplace-costs"):
                out.append({"algo": algo, "policy": pol, "sym": FULL5 if is_super(algo) else ["spe", "dup", "hgt", "floss"], "fixed": {},
                            "flags": sorted(flags), "coherent": True, "prior": prior})
    return out


def random_poly_tuple(rng, leaves, max_arity=3, npoly=1):
    """Random plane tree with `npoly` nodes of arity 3..max_arity (others binary)."""
    from engine.oracles.trees import random_plane_tree
    leaves = list(leaves)
    for _ in range(200):
        t = random_plane_tree(rng, leaves)
        # contract random internal edges to create polytomies
        def contract(x, budget):
            if isinstance(x, str):
                return x
            kids = [contract(c, budget) for c in x]
            out = []
            for k in kids:
                if not isinstance(k, str) and budget[0] > 0 and len(out) + len(k) + (len(kids) - len(out) - 1) <= max_arity and rng.random() < 0.6:
                    out.extend(k)
                    budget[0] -= 1
                else:
                    out.append(k)
            return tuple(out)
        b = [npoly]
        r = contract(t, b)
        if b[0] < npoly and not D.is_binary_tuple(r):
            return r
    return tuple(leaves[:3]) if len(leaves) == 3 else (tuple(leaves[:3]),) + tuple(leaves[3:])


def random_poly_input(rng, no, ns, nf, ordered, poly_object=True, poly_species=False, max_arity=3):
    d = random_super_input(rng, no, ns, nf, ordered, variants=False)
    if rng.random() < 0.5:
        d["oprefix"], d["sprefix"] = "O", "S"     # ancestors already called O<k> / S<k>, like trees labelled by an earlier run
    ol = sorted(d["leafmap"])
    sl = [D.SP_NAMES[i] for i in range(ns)]
    if poly_object and no >= 3:
        d["ot"] = random_poly_tuple(rng, ol, max_arity)
    if poly_species and ns >= 3:
        d["st"] = random_poly_tuple(rng, sl, max_arity)
    return D.presentation_variants(d, rng)


# ----------------------------------------------------------------------------- F-COHERENCE witnesses
_W_DESC = {"ot": (("g0", "g1"), "g2"), "st": (("SA", "SB"), "SC"), "leafmap": {"g0": "SA", "g1": "SA", "g2": "SB"}}
_W_SYN = {"g0": ["a"], "g1": ["a"], "g2": ["a"]}
COHERENCE_WITNESSES = {
    "C01": ("thl", dict(_W_DESC), {"spe": 5, "dup": 1, "hgt": 5, "floss": 1, "sloss": 1}),
    "C02": ("ext_spfs", dict(_W_DESC, leafsyn=_W_SYN), {"spe": 4, "dup": 0, "hgt": 4, "floss": 1, "sloss": 1}),
    "C03": ("superdtl", dict(_W_DESC, leafsyn=_W_SYN), {"spe": 5, "dup": 1, "hgt": 5, "floss": 1, "sloss": 0}),
}


def coherence_witness_result(prop):
    """Replay the recorded F-COHERENCE witness (OUTSIDE the coherent region, hence outside the explored space).
    Returns a runner result whose violation is matched by the 'known' entry of known_findings.json."""
    algo, desc, costs = COHERENCE_WITNESSES[prop]
    flags = {"opt", "valid", "empty"}
    cf = concrete_failures(desc, algo, "any", costs, flags)
    res = {"status": "ok", "paths": 1, "obligations": 1, "discharged": 0 if cf else 1, "violations": [], "nontrivial": False,
           "item": {"witness": "F-COHERENCE", "algo": algo, "desc": desc, "costs": costs}}
    if any(k == "suboptimal" for k, _ in cf):
        res["violations"].append(violation(prop, "suboptimal", "F-COHERENCE witness (cost vector outside spe + 2*sloss <= dup + 2*floss)",
                                           desc, algo, "any", costs, "concrete witness", flags))
    return res
