"""Fresh-interpreter runner of the call-history sections (C01-C03).

stdin: {"mode": "explore", "item": <generic_worker item with one run carrying prior=True>}
    -> earlier concrete calls, then the symbolic exploration of the call under test, all in this interpreter; prints the result dict
stdin: {"mode": "replay", "data": <violation data>}
    -> earlier concrete calls, then the call under test with plain numbers; prints the list of (kind, text) failures
The module state of superrec2 is exactly what a user process would have after the same calls: nothing is reset in between.
"""
import json
import sys


def main():
    req = json.load(sys.stdin)
    from checks import sr_common as SR
    from engine import harness as H
    from engine.runner import _jsonable
    if req["mode"] == "explore":
        res = SR.generic_worker(req["item"])
        res.pop("sample", None)
        print(json.dumps(_jsonable(res)))
        return 0
    data = req["data"]
    if data.get("prior") not in ("inplace", "inplace-costs"):
        SR.run_priors(data["desc"], data["algo"])
    fails = SR.concrete_failures(data["desc"], data["algo"], data["policy"], H.cost_unjson(data["costs"]), set(data["flags"]),
                                 inplace={"inplace": "data", "inplace-costs": "costs"}.get(data.get("prior"), False), history=True)
    print(json.dumps([[k, t] for k, t in fails]))
    return 0


if __name__ == "__main__":
    sys.exit(main())
