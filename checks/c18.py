"""C18 - subsequence masks and segment distances are exact.

Engine B (py2smt): subseq_segment_dist is translated from its current source into one z3
bit-vector formula (branches merged with ite, loop unrolled N times with an unwinding assertion)
and proven equal to a declarative run-count specification for ALL pairs of N-bit masks and both
end modes in a single query per N.  subseq_complete is translated the same way.
Engine A: mask_from_subseq / subseq_from_mask run on symbolic pairwise-distinct elements for every
mask of every length in the bound.
"""
import itertools
import os
import random
import subprocess
import sys
import tempfile
import time

import z3

from engine import runner as R
from engine.forksym import Ctx, Inconclusive, Lin
from engine.py2smt import Translator, Unsupported, eval_concrete

from superrec2.utils import subsequences as SS

PROP = "C18"


# ----------------------------------------------------------------------------- declarative spec
def spec_segment_dist(child, parent, edges, N, W):
    """Declarative run count over bit positions (quantifier-free expansion), as a z3 BV term."""
    c = [z3.Extract(i, i, child) == 1 for i in range(N)]
    p = [z3.Extract(i, i, parent) == 1 for i in range(N)]
    contained = z3.And(*[z3.Implies(c[i], p[i]) for i in range(N)])
    missing = [z3.And(p[i], z3.Not(c[i])) for i in range(N)]
    one, zero = z3.BitVecVal(1, W), z3.BitVecVal(0, W)
    starts = []
    for i in range(N):
        # i starts a run iff it is missing and the nearest parent position below i (if any) is kept
        prev_kept = z3.And(*[
            z3.Implies(z3.And(p[j], *[z3.Not(p[l]) for l in range(j + 1, i)]), c[j]) for j in range(i)
        ]) if i else z3.BoolVal(True)
        starts.append(z3.And(missing[i], prev_kept))
    total = zero
    for s in starts:
        total = total + z3.If(s, one, zero)
    low_missing = z3.Or(*[z3.And(missing[i], *[z3.Not(p[j]) for j in range(i)]) for i in range(N)])
    high_missing = z3.Or(*[z3.And(missing[i], *[z3.Not(p[j]) for j in range(i + 1, N)]) for i in range(N)])
    inner = total - z3.If(low_missing, one, zero) - z3.If(high_missing, one, zero)
    return z3.If(contained, z3.If(edges, total, inner), z3.BitVecVal(-1, W))


def py_spec(child, parent, edges):
    """The same specification on Python lists (used for concrete replay and translator validation)."""
    n = max(child.bit_length(), parent.bit_length())
    c = [(child >> i) & 1 for i in range(n)]
    p = [(parent >> i) & 1 for i in range(n)]
    if any(c[i] and not p[i] for i in range(n)):
        return -1
    kept = [bool(c[i]) for i in range(n) if p[i]]     # per parent element, low to high
    runs, cur = [], None
    for j, k in enumerate(kept):
        if not k:
            if cur is None:
                cur = [j, j]
            else:
                cur[1] = j
        elif cur is not None:
            runs.append(cur)
            cur = None
    if cur is not None:
        runs.append(cur)
    if not edges:
        runs = [r for r in runs if r[0] != 0 and r[1] != len(kept) - 1]
    return len(runs)


def solve(s, timeout_ms):
    s.set("timeout", timeout_ms)
    t = time.time()
    r = str(s.check())
    return r, time.time() - t


def cvc5_crosscheck(smt2, timeout_s):
    path = None
    try:
        with tempfile.NamedTemporaryFile("w", suffix=".smt2", delete=False) as f:
            f.write("(set-logic QF_BV)\n" + smt2 + "\n(check-sat)\n")
            path = f.name
        p = subprocess.run(["cvc5", f"--tlimit={int(timeout_s * 1000)}", path], capture_output=True, text=True, timeout=timeout_s + 30)
        out = (p.stdout + p.stderr).strip()
        if "(error" in out:
            return "error: " + out[:200]
        for tok in ("unsat", "sat", "unknown"):
            if out.split("\n")[0].strip() == tok:
                return tok
        return "inconclusive: " + out[:100]
    except (subprocess.TimeoutExpired, FileNotFoundError) as e:
        return f"inconclusive: {type(e).__name__}"
    finally:
        if path:
            os.unlink(path)


def dist_item(item):
    N = item["N"]
    W = N + 6
    out = dict(obligations=0, discharged=0, violations=[], solver_queries=0, solver_s=0.0, paths=1, nontrivial=True)
    fn = SS.subseq_segment_dist
    try:
        tr = Translator(fn, W, N)
        child, parent, edges = z3.BitVec("child", W), z3.BitVec("parent", W), z3.Bool("edges")
        st = tr.run({"child": child, "parent": parent, "edges": edges})
    except Unsupported as e:
        return {"status": "inconclusive", "reason": f"subseq_segment_dist is not encodable: {e}", "item": item}
    pre = z3.And(z3.ULT(child, z3.BitVecVal(1 << N, W)), z3.ULT(parent, z3.BitVecVal(1 << N, W)), child != 0)
    # translator validation: repo test vectors + seeded random inputs through real function and encoding
    rng = random.Random(item["seed"])
    vectors = [(0b000010, 0b111010, True), (0b101000, 0b111010, True), (0b110010, 0b111010, True), (0b000010, 0b111010, False),
               (0b1, 0b1, True), (0b10, 0b1, True), (0b100, 0b11, False)]
    vectors = [v for v in vectors if max(v[0], v[1]) < (1 << N)]
    vectors += [(rng.randrange(1, 1 << N), rng.randrange(0, 1 << N), rng.random() < 0.5) for _ in range(item["nval"])]
    for c, p, e in vectors:
        real = fn(c, p, e)
        enc = eval_concrete(fn, W, N, {"child": z3.BitVecVal(c, W), "parent": z3.BitVecVal(p, W), "edges": z3.BoolVal(e)})
        if real != enc:
            return {"status": "error", "error": f"translator validation failed: dist({c},{p},{e}) real={real} encoding={enc}", "item": item}
        if real != py_spec(c, p, e):
            # concrete disagreement between the code and the specification: a genuine finding, confirmed
            out["violations"].append(_dist_violation(c, p, e, N))
    out["translator_validation_inputs"] = len(vectors)
    queries = [
        ("unwinding assertion: bit_length(parent) <= N under the precondition", z3.And(pre, st["unwind_exceeded"])),
        ("termination witness: the function returns on every input", z3.And(pre, z3.Not(st["ret"]))),
        ("result stays in [-1, N] (no wrap-around in the head-room)", z3.And(pre, z3.Or(st["val"] < -1, st["val"] > N))),
        ("no intermediate +, -, *, <<, unary minus leaves the bit-vector width", z3.And(pre, z3.Or(*tr.overflow)) if tr.overflow else z3.BoolVal(False)),
        ("equivalence with the declarative run count", z3.And(pre, st["val"] != spec_segment_dist(child, parent, edges, N, W))),
    ]
    for name, q in queries:
        s = z3.Solver()
        s.add(q)
        r, dt = solve(s, item["timeout_ms"])
        out["obligations"] += 1
        out["solver_queries"] += 1
        out["solver_s"] += dt
        if r == "unsat":
            out["discharged"] += 1
            if item.get("cvc5") and name.startswith("equivalence"):
                cr = cvc5_crosscheck(s.to_smt2().replace("(check-sat)", ""), item["cvc5"])
                out["cvc5"] = cr
                if cr == "sat":
                    return {"status": "error", "error": "cvc5 disagrees with z3 (sat vs unsat) on the equivalence query", "item": item}
        elif r == "sat":
            m = s.model()
            c, p, e = m.eval(child, True).as_long(), m.eval(parent, True).as_long(), z3.is_true(m.eval(edges, True))
            v = _dist_violation(c, p, e, N)
            v["text"] = f"{name}: " + v["text"]
            out["violations"].append(v)
        else:
            return {"status": "inconclusive", "reason": f"z3 {r} on '{name}' (N={N})", "item": item}
    # vacuity witness: the precondition is satisfiable and reaches both result classes
    s = z3.Solver()
    s.add(pre, st["val"] > 1)
    s2 = z3.Solver()
    s2.add(pre, st["val"] == -1)
    if solve(s, 60000)[0] != "sat" or solve(s2, 60000)[0] != "sat":
        return {"status": "error", "error": "reachability witness failed (precondition vacuous?)", "item": item}
    out["solver_queries"] += 2
    out["sample"] = {"function": "subseq_segment_dist", "N_bits": N, "width": W, "queries": [q[0] for q in queries],
                     "solver_s": round(out["solver_s"], 2), "cvc5": out.get("cvc5")}
    out["item"] = item
    return out


def _dist_violation(c, p, e, N):
    real = SS.subseq_segment_dist(c, p, e)
    exp = py_spec(c, p, e)
    return {"kind": "segment-dist", "text": f"subseq_segment_dist({bin(c)}, {bin(p)}, edges={e}) = {real}, specification says {exp}",
            "signature": {"kind": "segment-dist", "child": c, "parent": p, "edges": e},
            "data": {"fn": "dist", "child": c, "parent": p, "edges": e}, "confirmed": real != exp}


def complete_item(item):
    N = item["N"]
    W = N + 6
    out = dict(obligations=0, discharged=0, violations=[], solver_queries=0, solver_s=0.0, paths=1, nontrivial=True, item=item)
    try:
        tr = Translator(SS.subseq_complete, W, 0)
        n = z3.BitVec("n", W)
        st = tr.run({"sequence": None}, lens={"sequence": n})
    except Unsupported as e:
        return {"status": "inconclusive", "reason": f"subseq_complete is not encodable: {e}", "item": item}
    pre = z3.And(n >= 0, n <= N)
    val = st["val"]
    spec = z3.And(*[(z3.Extract(i, i, val) == 1) == (z3.BitVecVal(i, W) < n) for i in range(W)])
    for k in range(0, N + 1):
        if SS.subseq_complete([0] * k) != eval_concrete(SS.subseq_complete, W, 0, {"sequence": None}, {"sequence": z3.BitVecVal(k, W)}):
            return {"status": "error", "error": f"translator validation failed for subseq_complete, len {k}", "item": item}
    s = z3.Solver()
    s.add(pre, z3.Or(z3.Not(st["ret"]), z3.Not(spec)))
    r, dt = solve(s, item["timeout_ms"])
    out["obligations"] += 1
    out["solver_queries"] += 1
    out["solver_s"] += dt
    if r == "unsat":
        out["discharged"] += 1
    elif r == "sat":
        k = s.model().eval(n, True).as_long()
        real = SS.subseq_complete([0] * k)
        out["violations"].append({"kind": "complete", "text": f"subseq_complete of a length-{k} sequence = {bin(real)}",
                                  "signature": {"kind": "complete", "len": k}, "data": {"fn": "complete", "len": k},
                                  "confirmed": real != (1 << k) - 1})
    else:
        return {"status": "inconclusive", "reason": f"z3 {r} on subseq_complete", "item": item}
    return out


# ----------------------------------------------------------------------------- round trips (engine A)
def roundtrip_item(item):
    n = item["n"]
    ctx = Ctx([(f"e{i}", "Int", None) for i in range(n)], max_paths=50, budget_s=120)
    elems = [ctx.var(f"e{i}") for i in range(n)]
    for i, j in itertools.combinations(range(n), 2):
        ctx.solver.add(ctx.zv[i] != ctx.zv[j])
    out = dict(obligations=0, discharged=0, violations=[], item=item)
    try:
        for _ in ctx.paths():
            for mask in range(1 << n):
                idx = [i for i in range(n) if mask >> i & 1]
                sub = [elems[i] for i in idx]
                out["obligations"] += 2
                try:
                    SS.mask_from_subseq(sub, elems), SS.subseq_from_mask(mask, elems)
                except Exception as e:
                    out["violations"].append(_rt_violation(n, mask, ctx.model_values(), f"exception {type(e).__name__}: {e}"))
                    break
                got_mask = SS.mask_from_subseq(sub, elems)
                if got_mask == mask:
                    out["discharged"] += 1
                else:
                    out["violations"].append(_rt_violation(n, mask, ctx.model_values(), "mask_from_subseq"))
                back = SS.subseq_from_mask(mask, elems)
                ok = len(back) == len(sub) and all(
                    (a is b) or ctx.prove(ctx.z(a) == ctx.z(b)) is None for a, b in zip(back, sub))
                if ok:
                    out["discharged"] += 1
                else:
                    out["violations"].append(_rt_violation(n, mask, ctx.model_values(), "subseq_from_mask"))
                # the caller owns the returned list: editing it must not change what the next equal call returns
                out["obligations"] += 1
                back.reverse()
                back.append(None)
                again = SS.subseq_from_mask(mask, elems)
                ok = len(again) == len(sub) and all(
                    (a is b) or (a is not None and ctx.prove(ctx.z(a) == ctx.z(b)) is None) for a, b in zip(again, sub))
                if ok:
                    out["discharged"] += 1
                else:
                    out["violations"].append(_rt_violation(n, mask, ctx.model_values(), "subseq_from_mask after the caller edited an earlier result"))
                if len(out["violations"]) > 2:
                    break
    except Inconclusive as e:
        return {"status": "inconclusive", "reason": str(e), "item": item}
    st = ctx.stats()
    out.update(paths=st["paths"], solver_queries=st["solver_queries"], solver_s=st["solver_s"], nontrivial=n >= 2)
    if n == 4:
        out["sample"] = {"round trip": "sequence of 4 symbolic pairwise-distinct integers e0..e3, every mask 0..15",
                         "paths": st["paths"]}
    return out


def _rt_concrete(n, mask, vals, seq=None):
    seq = [vals[f"e{i}"] for i in range(n)] if seq is None else list(seq)
    sub = [seq[i] for i in range(n) if mask >> i & 1]
    fails = []
    try:
        SS.mask_from_subseq(sub, seq), SS.subseq_from_mask(mask, seq)
    except Exception as e:
        return [f"exception {type(e).__name__}: {e} for mask {mask} on {seq}"]
    if SS.mask_from_subseq(sub, seq) != mask:
        fails.append(f"mask_from_subseq({sub}, {seq}) = {SS.mask_from_subseq(sub, seq)} != {mask}")
    first = SS.subseq_from_mask(mask, seq)
    if first != sub:
        fails.append(f"subseq_from_mask({mask}, {seq}) = {first} != {sub}")
    else:
        first.reverse()
        first.append(None)
        again = SS.subseq_from_mask(mask, seq)
        if again != sub:
            fails.append(f"subseq_from_mask({mask}, {seq}) = {again} != {sub} after the caller edited the list returned by an earlier equal call")
    return fails


_ODD = [None, 0, "", (), 0.5, "a", -1, b"x", frozenset(), 7, "None", (None,)]


def _family(kind, n):
    return {"int": [10 * i + 3 for i in range(n)], "str": [f"f{n - i}" for i in range(n)], "tuple": [(i, "x") for i in range(n)],
            "odd": _ODD[:n], "odd-reversed": _ODD[:n][::-1]}[kind]


def inplace_parent_fails(n, kind):
    """ONE parent list object is used, edited in place (reversed, two elements exchanged, one replaced), and used again."""
    seq = list(_family(kind, n))
    fails = []
    for step in range(4):
        for mask in range(1 << n):
            sub = [seq[i] for i in range(n) if mask >> i & 1]
            try:
                if SS.mask_from_subseq(sub, seq) != mask or SS.subseq_from_mask(mask, seq) != sub:
                    fails.append(f"after {step} in-place edit(s) of the same parent list {seq}: mask {bin(mask)} does not round-trip")
                    return fails
            except Exception as e:
                return [f"after {step} in-place edit(s) of the same parent list: exception {type(e).__name__}: {e}"]
        if n >= 2:
            if step == 0:
                seq.reverse()
            elif step == 1:
                seq[0], seq[-1] = seq[-1], seq[0]
            else:
                seq[n // 2] = ("new", step)
    return fails


def roundtrip_concrete_item(item):
    """Concrete companion of the symbolic round trip (plain enumeration, reported as such): element kinds the affine encoding cannot
    carry (strings, tuples, None, falsy and mixed-type values) and code paths that hash their arguments."""
    n = item["n"]
    out = dict(obligations=0, discharged=0, violations=[], item=item, paths=1, solver_queries=0, solver_s=0.0, nontrivial=n >= 2)
    for kind in ("int", "str", "tuple") if n <= 7 else ():
        out["obligations"] += 1
        cf = inplace_parent_fails(n, kind)
        if cf:
            out["violations"].append({"kind": "roundtrip", "text": f"{cf[0]}", "signature": {"kind": "roundtrip-inplace", "elements": kind, "n": n},
                                      "data": {"fn": "roundtrip-inplace", "n": n, "family": kind}, "confirmed": True})
            return out
        out["discharged"] += 1
    for kind in ("int", "str", "tuple", "odd", "odd-reversed"):
        seq = _family(kind, n)
        for mask in range(1 << n):
            out["obligations"] += 3
            cf = _rt_concrete(n, mask, None, seq)
            if cf:
                out["violations"].append({"kind": "roundtrip", "text": f"concrete {kind} elements, n={n} mask={bin(mask)}: {cf}",
                                          "signature": {"kind": "roundtrip-concrete", "elements": kind, "n": n, "mask": mask},
                                          "data": {"fn": "roundtrip-concrete", "n": n, "mask": mask, "family": kind}, "confirmed": True})
                if len(out["violations"]) > 2:
                    return out
            else:
                out["discharged"] += 3
    return out


def _rt_violation(n, mask, model, which):
    vals = {k: int(v) for k, v in model.items()}
    cf = _rt_concrete(n, mask, vals)
    return {"kind": "roundtrip", "text": f"{which}: n={n} mask={bin(mask)} elements {vals}: {cf}",
            "signature": {"kind": "roundtrip", "which": which, "n": n, "mask": mask},
            "data": {"fn": "roundtrip", "n": n, "mask": mask, "values": vals}, "confirmed": bool(cf)}


def worker(item):
    if item["kind"] == "dist":
        return dist_item(item)
    if item["kind"] == "complete":
        return complete_item(item)
    if item["kind"] == "roundtrip-concrete":
        return roundtrip_concrete_item(item)
    return roundtrip_item(item)


def replay(data):
    if data["fn"] == "dist":
        real = SS.subseq_segment_dist(data["child"], data["parent"], data["edges"])
        exp = py_spec(data["child"], data["parent"], data["edges"])
        print(f"  subseq_segment_dist = {real}, specification = {exp}")
        return real != exp
    if data["fn"] == "complete":
        return SS.subseq_complete([0] * data["len"]) != (1 << data["len"]) - 1
    if data["fn"] == "roundtrip-inplace":
        cf = inplace_parent_fails(data["n"], data["family"])
        for t in cf:
            print("  reproduced:", t)
        return bool(cf)
    if data["fn"] == "roundtrip-concrete":
        cf = _rt_concrete(data["n"], data["mask"], None, _family(data["family"], data["n"]))
    else:
        cf = _rt_concrete(data["n"], data["mask"], data["values"])
    for t in cf:
        print("  reproduced:", t)
    return bool(cf)


def main(argv=None):
    tier, seed = R.tier_and_seed(argv)
    rep = R.Report(PROP, tier, seed)
    if tier == "quick":
        Ns, nmax, to = [4, 8, 10, 12, 14], 9, 300000
    else:
        Ns, nmax, to = [6, 10, 12, 16, 20, 24], 11, 3000000
    items = [{"kind": "dist", "N": N, "seed": seed + N, "nval": 200, "timeout_ms": to,
              "cvc5": (240 if (tier == "thorough" and N == 10) else 0)} for N in Ns]
    items += [{"kind": "complete", "N": 40, "timeout_ms": to}]
    items += [{"kind": "roundtrip", "n": n} for n in range(0, nmax + 1)]
    res, sk = R.run_sharded(worker, items, 3500)
    rep.add_results("subseq_segment_dist: bit-vector proof per N", [r for r in res if r.get("item", {}).get("kind") == "dist"], sk, exhaustive=True)
    rep.add_results("subseq_complete and symbolic-element round trips", [r for r in res if r.get("item", {}).get("kind") != "dist"], 0, exhaustive=True)
    res, sk = R.run_sharded(worker, [{"kind": "roundtrip-concrete", "n": n} for n in range(0, nmax + 2)], 600)
    rep.add_results("round trips on concrete int / str / tuple elements (plain enumeration, companion of the symbolic round trip)", res, sk, exhaustive=True)
    rep.extra["cvc5_crosscheck"] = [r.get("cvc5") for r in res if r.get("cvc5")]
    rep.extra["translator_validation_inputs"] = sum(r.get("translator_validation_inputs", 0) for r in res)
    rep.functions = R.safe_digest(lambda: R.source_digest(SS.subseq_segment_dist, SS.subseq_complete, SS.mask_from_subseq, SS.subseq_from_mask))
    rep.bounds = {"subseq_segment_dist": f"all (child, parent, edges) with child != 0 and both masks below 2^N for N in {Ns} "
                                         f"(one equivalence query per N; bit-vector width N+6, loop unrolled N times, unwinding assertion proven)",
                  "subseq_complete": "sequence length 0..40 as a symbolic bit-vector",
                  "round trips": f"sequence length 0..{nmax}, elements = symbolic pairwise-distinct integers, every mask; each subseq_from_mask result is edited by the "
                                 f"caller and the call repeated (the result must not be shared); concrete companion with int/str/tuple elements and with falsy / None / mixed-type distinct elements up to length {nmax + 1}"}
    rep.assumptions = ["Python ints are modelled by bit-vectors of width N+6; the side query 'result in [-1,N]' and the loop bound N exclude wrap-around",
                       "engine/py2smt.py translation (validated on the repository's test vectors and 200 seeded inputs per N against the real function)"]
    rep.outside = ["masks of more than max(N) bits", "child == 0 (outside the property's quantifier)", "sequences with repeated elements"]
    return rep.finish(
        explanation="Translation of subseq_segment_dist from its current source (AST) into a single bit-vector formula with ite-merged branches; "
                    "z3 proves it equal to a declarative run-count specification for all mask pairs below 2^N and both end modes (unsat of the "
                    "negation), together with an unwinding assertion, a termination witness and a range side-condition. Mask round trips run on "
                    "symbolic distinct elements (engine A).",
        rule="one evaluation = one (function, bound) proof task; each covers the complete input space of its bound by a solver verdict")


if __name__ == "__main__":
    sys.exit(main())
