"""Shared main() for the optimiser checks built on sr_common.generic_worker."""
from engine import harness as H
from engine import runner as R
from checks import sr_common as SR


def encoded_functions():
    import superrec2.compute.reconciliation as m1, superrec2.compute.exhaustive as m2
    import superrec2.utils.dynamic_programming as m3, superrec2.model.reconciliation as m4
    import superrec2.compute.super_reconciliation as m5, superrec2.compute.unordered_super_reconciliation as m6
    import superrec2.utils.subsequences as m7, superrec2.utils.toposort as m8, superrec2.utils.trees as m9
    return {
        "plain": [m1.reconcile_lca, m1.reconcile_thl, m1._compute_thl_table, m1._compute_thl_try_speciation,
                  m1._compute_thl_try_duplication_transfer, m1._decode_thl_table, m2.generate_all, m2.reconcile_exhaustive],
        "dp": [m3.Entry.update, m3.Entry.combine, m3.EntryProxy.update, m3.TableProxy.__getitem__,
               m4.ReconciliationOutput.node_event, m4.ReconciliationOutput._cost_rec],
        "ordered": [m5.sreconcile_extended_spfs, m5.sreconcile_base_spfs, m5._spfs, m5._compute_spfs_entry, m5._compute_spfs_table,
                    m5._decode_spfs_table, m5._make_prec_graph, m8.toposort_all, m7.subseq_segment_dist, m7.mask_from_subseq,
                    m7.subseq_from_mask, m7.subseq_complete, m4.SuperReconciliationOutput._ordered_labeling_cost],
        "unordered": [m6.usreconcile_extended_uspfs, m6.usreconcile_base_uspfs, m6._uspfs, m6._compute_gain_sets, m6._compute_lca_sets,
                      m6._compute_uspfs_entry, m6._compute_uspfs_table, m6._decode_uspfs_table,
                      m4.SuperReconciliationOutput._unordered_labeling_cost],
        "poly": [m9.binarize, m9.arrange_leaves, m9.graft, m4.ReconciliationInput.binarize, m4.ReconciliationInput.label_internal],
    }


def _weight(item):
    d = item["desc"]
    import json
    txt = json.dumps(d["ot"]) + json.dumps(d["st"])
    nleaf = txt.count('"')  # 2 per leaf
    poly = 0 if (_binary(d["ot"]) and _binary(d["st"])) else 1
    nf = len(set(g for s in (d.get("leafsyn") or {}).values() for g in s))
    return poly * 1000 + nleaf * 10 + nf * 5 + len(item["runs"])


def _binary(t):
    return isinstance(t, str) or (len(t) == 2 and all(_binary(c) for c in t))


def _tagged_worker(item):
    r = SR.generic_worker(item)
    r["section"] = item["section"]
    return r


def run(prop, tier, seed, sections, fn_groups, bounds, explanation, rule, outside, budget, max_paths, budget_s, assumptions=()):
    """sections: list of (name, [ (desc, runs) ], exhaustive flag)."""
    rep = R.Report(prop, tier, seed)
    # one pool for all sections (better utilisation); most expensive sections first
    items = []
    for si, (name, pairs, exhaustive) in enumerate(sections):
        for d, runs in pairs:
            items.append({"prop": prop, "desc": d, "runs": runs, "max_paths": max_paths, "budget_s": budget_s, "section": si})
    order = sorted(range(len(items)), key=lambda i: -_weight(items[i]))
    res, sk = R.run_sharded(_tagged_worker, [items[i] for i in order], budget)
    for si, (name, pairs, exhaustive) in enumerate(sections):
        mine = [r for r in res if r.get("section") == si]
        rep.add_results(name, mine, len(pairs) - len(mine), exhaustive=exhaustive)
    if prop in SR.COHERENCE_WITNESSES:
        rep.add_results("F-COHERENCE witness (outside the coherent region; concrete replay only)", [SR.coherence_witness_result(prop)], 0, exhaustive=None)
    rep.functions = R.safe_digest(lambda: R.source_digest(*[f for g in fn_groups for f in encoded_functions()[g]]))
    rep.bounds = dict(bounds, per_input_path_cap=max_paths)
    rep.assumptions = ["oracles engine/oracles/{recon,labels}.py are the documented event / labelling model",
                       "z3 linear integer arithmetic", "CPython operator dispatch on engine.forksym.Lin"] + list(assumptions)
    rep.stubs = H.STUBS
    rep.outside = outside
    return rep.finish(explanation=explanation, rule=rule)
