"""C06 - the cost evaluator implements the documented event model.

Engine A: the five unit costs are symbolic non-negative integers (no coherence restriction).
For every valid mapping of the independent enumerator (and, with syntenies, every valid ordered
or unordered labelling in the bound) the real node_event / reconciliation_cost / labeling_cost /
cost run on the symbols; z3 proves the returned affine form equal to the oracle recount n.c for
every cost vector.  A second pass uses the concrete infinity.inf transfer cost.
"""
import random
import sys

import z3
from infinity import inf

from engine import harness as H
from engine import runner as R
from engine.forksym import Inconclusive, Lin
from engine.oracles import labels as LB
from checks import dp_common as D

from superrec2.model.reconciliation import (
    NodeEvent,
    ReconciliationOutput,
    SuperReconciliationOutput,
)

PROP = "C06"
EV = {"S": NodeEvent.SPECIATION, "D": NodeEvent.DUPLICATION, "T": NodeEvent.HORIZONTAL_TRANSFER}


def build_output(case, inp, m, syn=None, ordered=None):
    onode = {n.name: n for n in inp.object_tree.traverse()}
    snode = {n.name: n for n in inp.species_lca.tree.traverse()}
    mapping = {onode[case.O.name[k]]: snode[case.S.name[v]] for k, v in m.items()}
    if syn is None:
        return ReconciliationOutput(inp, mapping), onode
    syns = {onode[case.O.name[k]]: (list(v) if ordered else set(v)) for k, v in syn.items()}
    return SuperReconciliationOutput(input=inp, object_species=mapping, syntenies=syns, ordered=ordered), onode


def labelled_cases(case, rng, cap):
    """[(ordered flag, syn dict)] within the cap (seeded sample above it)."""
    out = []
    if case.leafsyn is None:
        return out
    un = [s for s, _ in LB.unordered_labellings(case.O, case.leafsyn)]
    od = list(LB.ordered_labellings(case.O, case.leafsyn, case.rootsyn))
    for flag, labs in ((False, un), (True, od)):
        if len(labs) > cap:
            labs = rng.sample(labs, cap)
        out += [(flag, s) for s in labs]
    return out


def concrete_failures(desc, m, syn, ordered, costs, prev=None):
    case = H.Case(desc)
    inp = case.build(costs)
    m = {int(k): v for k, v in m.items()}
    res = D.RC.evaluate(case.O, case.S, m)
    cnt, ev, kept = res
    syn2 = {int(k): tuple(v) for k, v in syn.items()} if syn is not None else None
    out, onode = build_output(case, inp, m, syn2, ordered)
    if prev is not None and syn is None:
        out, onode = build_output(case, inp, {int(k): v for k, v in prev.items()}, None, None)
        try:
            out.cost(), [out.node_event(n) for n in out.object_species]
        except Exception:
            pass
        snode = {n.name: n for n in inp.species_lca.tree.traverse()}
        for k, v in m.items():
            out.object_species[onode[case.O.name[k]]] = snode[case.S.name[v]]
    fails = []
    for u, kind in ev.items():
        got = out.node_event(onode[case.O.name[u]])
        if got != EV[kind]:
            fails.append(("event", f"node {case.O.name[u]}: evaluator says {got.name}, model says {kind}"))
    if syn is None:
        exp = H.form_value(costs, cnt)
        got = out.cost()
        if not (got == exp):
            fails.append(("cost", f"cost() = {got}, recount = {exp}"))
    else:
        n = (LB.ordered_sloss(case.O, ev, kept, syn2) if ordered
             else LB.unordered_sloss(case.O, ev, kept, {k: frozenset(v) for k, v in syn2.items()}))
        er, el = H.form_value(costs, cnt), n * costs["sloss"]
        if not (out.reconciliation_cost() == er):
            fails.append(("cost", f"reconciliation_cost() = {out.reconciliation_cost()}, recount = {er}"))
        if not (out.labeling_cost() == el):
            fails.append(("cost", f"labeling_cost() = {out.labeling_cost()}, recount = {el}"))
        if not (out.cost() == er + el):
            fails.append(("cost", f"cost() = {out.cost()}, recount = {er + el}"))
    return fails


def replay(data):
    fails = concrete_failures(data["desc"], data["mapping"], data.get("syn"), data.get("ordered"), H.cost_unjson(data["costs"]), data.get("prev"))
    for k, t in fails:
        print(f"  reproduced: {k}: {t}")
    return bool(fails)


def _viol(kind, text, desc, m, syn, ordered, costs_conc, prev=None):
    data = {"desc": desc, "mapping": {str(k): v for k, v in m.items()},
            "syn": ({str(k): list(v) for k, v in syn.items()} if syn is not None else None),
            "ordered": ordered, "costs": H.cost_json(costs_conc), "prev": ({str(k): v for k, v in prev.items()} if prev is not None else None)}
    fails = concrete_failures(desc, data["mapping"], data["syn"], ordered, costs_conc, data["prev"])
    if prev is not None:
        text += " (the output object was first evaluated for another mapping and then edited in place)"
    return {"kind": kind, "text": f"{text}; input {desc}; mapping {m}; syntenies {data['syn']}; costs {H.cost_json(costs_conc)}",
            "signature": {"kind": kind, "desc": desc, "mapping": data["mapping"], "syn": data["syn"], "ordered": ordered},
            "data": data, "confirmed": any(k == kind for k, _ in fails)}


def _eq_obligation(ctx, got, exp):
    """prove got == exp (both Lin / int).  Returns model or None."""
    d = got - exp
    if isinstance(d, Lin):
        return ctx.prove(ctx.z(d) == 0)
    return None if d == 0 else ctx.model_values()


def worker(item):
    desc = item["desc"]
    rng = random.Random(item["seed"])
    case = H.Case(desc)
    orc = D.Oracle(case)
    recs = orc.recs
    if len(recs) > item["rec_cap"]:
        recs = rng.sample(recs, item["rec_cap"])
    labs = labelled_cases(case, rng, item["lab_cap"])
    out = dict(paths=0, obligations=0, discharged=0, violations=[], sample=None, solver_queries=0, solver_s=0.0)
    try:
        for hgt_mode in ("sym", "inf"):
            sym = [n for n in H.COST_NAMES if not (hgt_mode == "inf" and n == "hgt")]
            ctx, costs = H.cost_ctx(sym, fixed={"hgt": inf}, coherent=False, max_paths=2000, budget_s=item["budget_s"])
            inp = case.build(costs)
            for _ in ctx.paths():
                prev_m = None
                for m, cnt, ev, kept in recs:
                    variants = [(None, None)] + ([(o, s) for o, s in labs] if case.leafsyn is not None else [])
                    for ordered, syn in variants:
                        if syn is not None and ordered and LB.ordered_sloss(case.O, ev, kept, syn) is None:
                            continue
                        o, onode = build_output(case, inp, m, syn, ordered)
                        if prev_m is not None and syn is None and len(prev_m) == len(m):
                            # history: ONE output object, first evaluated for the previous valid mapping, then edited in place into this one
                            o, onode = build_output(case, inp, prev_m, None, None)
                            try:
                                o.cost(), [o.node_event(n) for n in o.object_species]
                            except Exception:
                                pass
                            snode = {n.name: n for n in inp.species_lca.tree.traverse()}
                            for k, v in m.items():
                                o.object_species[onode[case.O.name[k]]] = snode[case.S.name[v]]
                        bad = False
                        for u, kind in ev.items():
                            out["obligations"] += 1
                            if o.node_event(onode[case.O.name[u]]) != EV[kind]:
                                cc = H.concrete_costs(costs, ctx.model_values())
                                out["violations"].append(_viol("event", f"node_event differs at {case.O.name[u]}", desc, m, syn, ordered, cc, prev_m if syn is None else None))
                                bad = True
                            else:
                                out["discharged"] += 1
                        if bad:
                            continue
                        exp_r = H.form_z(ctx, costs, cnt)
                        if syn is None:
                            pairs = [("cost()", o.cost(), exp_r)]
                        else:
                            n = (LB.ordered_sloss(case.O, ev, kept, syn) if ordered else LB.unordered_sloss(case.O, ev, kept, syn))
                            exp_l = n * costs["sloss"]
                            pairs = [("reconciliation_cost()", o.reconciliation_cost(), exp_r),
                                     ("labeling_cost()", o.labeling_cost(), exp_l),
                                     ("cost()", o.cost(), None if exp_r is None else exp_r + exp_l)]
                        for what, got, exp in pairs:
                            out["obligations"] += 1
                            if exp is None:    # infinite expected
                                okay = got is inf or got == inf
                                model = None if okay else ctx.model_values()
                            elif got is inf or (not isinstance(got, Lin) and got == inf):
                                model = ctx.model_values()
                            else:
                                model = _eq_obligation(ctx, got, exp)
                            if model is None:
                                out["discharged"] += 1
                            else:
                                cc = H.concrete_costs(costs, model)
                                out["violations"].append(_viol("cost", f"{what} differs from the recount", desc, m, syn, ordered, cc, prev_m if syn is None else None))
                        if out["sample"] is None and syn is not None:
                            out["sample"] = {"input": desc, "mapping": case.mapping_names(m), "ordered": ordered,
                                             "syntenies": {case.O.name[k]: list(v) for k, v in syn.items()},
                                             "evaluator_form": repr(o.cost()), "oracle_counts": list(cnt) + [n]}
                    prev_m = m
                    if len(out["violations"]) >= 3:
                        break
                if len(out["violations"]) >= 3:
                    break
            st = ctx.stats()
            out["paths"] += st["paths"]
            out["solver_queries"] += st["solver_queries"]
            out["solver_s"] += st["solver_s"]
    except Inconclusive as e:
        out["status"] = "inconclusive"
        out["reason"] = str(e)
    out["nontrivial"] = len(recs) >= 2
    out["item"] = desc
    if out["sample"] is None and recs:
        out["sample"] = {"input": desc, "mappings": len(recs)}
    return out


def inputs(tier, seed):
    rng = random.Random(seed)
    items = []
    if tier == "quick":
        plain = list(D.plain_inputs(range(1, 4), range(1, 4)))
        plain += [D.random_plain_input(rng, 4, rng.randint(2, 4)) for _ in range(120)] + [D.random_plain_input(rng, 5, rng.randint(3, 5)) for _ in range(30)]
        nlab, sizes, fams = 400, [(3, 2), (3, 3), (4, 3), (4, 4)], "abcd"
        bounds = {"plain": "exhaustive object leaves 1-3 x species leaves 1-3 + 120 seeded 4-leaf and 30 seeded 5-leaf inputs, every valid mapping",
                  "labelled": "400 seeded inputs (3-4 object leaves, 2-4 species leaves, 2-4 families), every valid mapping (cap 40) x "
                              "every unordered and ordered labelling (cap 60 each, seeded sample above)"}
    else:
        plain = list(D.plain_inputs(range(1, 5), range(1, 5)))
        plain += [D.random_plain_input(rng, 5, rng.randint(2, 5)) for _ in range(150)]
        nlab, sizes, fams = 300, [(3, 3), (4, 3), (4, 4), (5, 3)], "abcd"
        bounds = {"plain": "exhaustive object leaves 1-4 x species leaves 1-4 + 150 seeded 5-leaf inputs (species 2-5 leaves), every valid mapping",
                  "labelled": "300 seeded inputs (3-5 object leaves, 3-4 species leaves, 3-4 families), every valid mapping (cap 60) x "
                              "every unordered and ordered labelling (cap 120 each, seeded sample above)"}
    for d in plain:
        items.append(d)
    lab = []
    for _ in range(nlab):
        no, ns = rng.choice(sizes)
        d = D.random_plain_input(rng, no, ns)
        f = fams[: rng.randint(2, len(fams))]
        d["leafsyn"] = D.random_syntenies(rng, sorted(d["leafmap"]), f, ordered=rng.random() < 0.6)
        lab.append(d)
    return items, lab, bounds


def main(argv=None):
    tier, seed = R.tier_and_seed(argv)
    rep = R.Report(PROP, tier, seed)
    plain, lab, bounds = inputs(tier, seed)
    rc, lc = (40, 60) if tier == "quick" else (60, 120)
    budget = 120 if tier == "quick" else 1500
    mk = lambda d, i: {"desc": d, "seed": seed * 100003 + i, "rec_cap": 10 ** 9 if "leafsyn" not in d else rc, "lab_cap": lc, "budget_s": 300.0}
    res, sk = R.run_sharded(worker, [mk(d, i) for i, d in enumerate(plain)], budget)
    rep.add_results("plain", res, sk, exhaustive=True)
    res, sk = R.run_sharded(worker, [mk(d, i) for i, d in enumerate(lab)], budget)
    rep.add_results("labelled", res, sk, exhaustive=False)
    import superrec2.model.reconciliation as m4, superrec2.utils.subsequences as m5, superrec2.utils.trees as m6
    rep.functions = R.safe_digest(lambda: R.source_digest(
        m4.ReconciliationOutput.node_event, m4.ReconciliationOutput._cost_rec, m4.ReconciliationOutput.cost,
        m4.SuperReconciliationOutput.reconciliation_cost, m4.SuperReconciliationOutput._ordered_labeling_cost,
        m4.SuperReconciliationOutput._unordered_labeling_cost, m4.SuperReconciliationOutput.labeling_cost,
        m4.SuperReconciliationOutput.cost, m5.subseq_segment_dist, m5.mask_from_subseq, m6.LowestCommonAncestor.distance))
    rep.bounds = dict(bounds, costs="spe, dup, hgt, floss, sloss: all non-negative integers, no coherence restriction; second pass hgt = infinity.inf")
    rep.assumptions = ["oracles engine/oracles/recon.py and labels.py are the documented event model", "z3 linear integer arithmetic"]
    rep.stubs = H.STUBS
    rep.outside = ["negative or non-integer costs", "trees, family counts beyond the stated sizes", "the CLI's printed minimum (C12)"]
    return rep.finish(
        explanation="Bounded symbolic verification of the evaluator: node_event, reconciliation_cost, labeling_cost and cost run on "
                    "symbolic unit costs for every valid mapping (and labelling) of an independent enumerator; z3 proves the returned "
                    "affine form equal to the oracle's count vector priced by the same symbols for all non-negative integer costs.",
        rule="one evaluation = one structural input with all its valid mappings (x labellings); non-trivial = at least two valid mappings")


if __name__ == "__main__":
    sys.exit(main())
