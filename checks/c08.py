"""C08 - polytomies are resolved by exploring every binary refinement exactly once.

* Enumerator (utils.trees.binarize, arrange_leaves, graft; ReconciliationInput.binarize): every
  rooted tree shape with arbitrary arities up to the bound, named ancestors and colour features on
  some nodes.  Completeness is decided by z3 on a declarative SAT specification (laminar clade
  family of size |L|-1 containing the clades of T): each output is a model, outputs are pairwise
  distinct, and  spec AND NOT(any output)  is unsat; the count is prod (2k-3)!!; names, colours and
  leaf data are preserved.
* End to end (engine A): extended solvers on inputs with polytomies, symbolic costs; on every path
  z3 proves the returned total <= every oracle form of every refinement pair produced from the
  SAT models (independent of binarize), and every returned solution refers to binary refinements.
"""
import itertools
import random
import sys

from ete3 import Tree

from engine import harness as H
from engine import runner as R
from engine.oracles import clades as CL
from engine.oracles.trees import OTree, multifurcating_shapes
from checks import dp_common as D
from checks import sr_common as SR

from superrec2.model.reconciliation import SuperReconciliationInput
from superrec2.utils.trees import binarize, is_binary

PROP = "C08"
COLORS = ["ff0000", "00ff00", "0000ff"]


def ete_clade(n):
    return frozenset(l.name for l in n.iter_leaves())


def decorate(t, rng):
    """names for some ancestors, colours on some nodes -> (newick, {clade: (name, color)})"""
    O = OTree(t, "anc")
    feats, names, expect = {}, {}, {}
    for i in range(O.n):
        named = (not O.children[i]) or rng.random() < 0.6
        col = rng.choice(COLORS) if rng.random() < 0.35 else None
        if not named:
            names[i] = ""
        if col:
            feats[i] = {"color": col}
        expect[O.leafset(i)] = (O.name[i] if named else "", col)
    for i, n in names.items():
        O.name[i] = n
    return O.newick(feats), expect


AMBIGUOUS = ["1", "2", "12", "a", "b", "ab", "11", "21", "121"]


def enum_fails(t, seed):
    rng = random.Random(seed)
    if seed % 3 == 0:
        # leaf names whose concatenations collide (1, 2, 12 / a, b, ab): numbered leaves reach this as soon as there are twelve of them
        ls = CL._leaves(t)
        if len(ls) <= len(AMBIGUOUS):
            mp = dict(zip(ls, rng.sample(AMBIGUOUS[:max(3, len(ls))], len(ls))))

            def ren(x):
                return mp[x] if isinstance(x, str) else tuple(ren(c) for c in x)
            t = ren(t)
    newick, expect = decorate(t, rng)
    tree = Tree(newick, format=1)
    leaves = CL._leaves(t)
    outs = binarize(tree)
    if not isinstance(outs, list):
        outs = [outs]      # a single-leaf tree is returned as is
    fails = []
    spec = CL.CladeSpec(leaves, required_clades=CL.clades_of_tuple(t))
    clade_sets = []
    for o in outs:
        if not is_binary(o) or any(len(n.children) not in (0, 2) for n in o.traverse()):
            fails.append("an output is not binary")
        cs = set(ete_clade(n) for n in o.traverse() if not n.is_leaf())
        clade_sets.append(frozenset(cs))
        if sorted(l.name for l in o.iter_leaves()) != sorted(leaves):
            fails.append("an output has different leaves")
        elif len(leaves) >= 2 and not spec.is_model(cs):
            fails.append(f"an output is not a refinement: clades {sorted(map(sorted, cs))}")
        for n in o.traverse():
            c = ete_clade(n)
            if c in expect:
                name, col = expect[c]
                if name and n.name != name:
                    fails.append(f"name of clade {sorted(c)} is {n.name!r}, expected {name!r}")
                if getattr(n, "color", None) != col:
                    fails.append(f"colour of clade {sorted(c)} is {getattr(n, 'color', None)}, expected {col}")
            elif getattr(n, "color", None) is not None:
                fails.append(f"new node {sorted(c)} carries a colour")
    if len(set(clade_sets)) != len(clade_sets):
        fails.append("a refinement is produced more than once")
    want = CL.double_factorial_count(t)
    if len(outs) != want:
        fails.append(f"{len(outs)} refinements produced, prod (2k-3)!! = {want}")
    if len(leaves) >= 2:
        ok, missing = spec.complete(clade_sets)
        if not ok:
            fails.append(f"a binary refinement is never produced: clades {sorted(map(sorted, missing))}")
    # history: the SAME tree object is edited in place (an inner node is removed, its children move up) and refined again
    inner = [n for n in tree.traverse("preorder") if not n.is_leaf() and not n.is_root()]
    if inner and not fails:
        inner[0].delete()

        def tup(n):
            return n.name if n.is_leaf() else tuple(tup(c) for c in n.children)

        t2 = tup(tree)
        outs2 = binarize(tree)
        outs2 = outs2 if isinstance(outs2, list) else [outs2]
        spec2 = CL.CladeSpec(leaves, required_clades=CL.clades_of_tuple(t2))
        cs2 = [frozenset(ete_clade(n) for n in o.traverse() if not n.is_leaf()) for o in outs2]
        if len(outs2) != CL.double_factorial_count(t2) or len(set(cs2)) != len(cs2):
            fails.append(f"after removing an inner node in place: {len(outs2)} refinements ({len(set(cs2))} distinct), prod (2k-3)!! = {CL.double_factorial_count(t2)}")
        elif any(not spec2.is_model(c) for c in cs2) or not spec2.complete(cs2)[0]:
            fails.append("after removing an inner node in place: the outputs are not exactly the refinements of the edited tree")
    return fails, len(outs)


def input_fails(desc):
    """ReconciliationInput.binarize(): product of refinements, everything else preserved."""
    case = H.Case(desc)
    inp = case.build({"spe": 0, "dup": 1, "hgt": 1, "floss": 1, "sloss": 1})
    outs = list(inp.binarize())
    fails = []
    want = CL.double_factorial_count(case.ot) * CL.double_factorial_count(case.st)
    if len(outs) != want:
        fails.append(f"{len(outs)} refined inputs, expected {want}")
    seen = set()
    for o in outs:
        oc = frozenset(ete_clade(n) for n in o.object_tree.traverse() if not n.is_leaf())
        sc = frozenset(ete_clade(n) for n in o.species_lca.tree.traverse() if not n.is_leaf())
        seen.add((oc, sc))
        if not is_binary(o.object_tree) or not is_binary(o.species_lca.tree):
            fails.append("a refined input is not binary")
        if not CL.clades_of_tuple(case.ot) <= set(oc) or not CL.clades_of_tuple(case.st) <= set(sc):
            fails.append("a refined input lost a clade")
        lm = {k.name: v.name for k, v in o.leaf_object_species.items()}
        if lm != case.leafmap:
            fails.append("leaf assignment changed")
        ls = {k.name: list(v) for k, v in o.leaf_syntenies.items()}
        if ls != case.leafsyn:
            fails.append("leaf syntenies changed")
        if o.costs != inp.costs:
            fails.append("costs changed")
        for tree, T in ((o.object_tree, case.O), (o.species_lca.tree, case.S)):
            for n in tree.traverse():
                c = ete_clade(n)
                for i in T.internals:
                    if T.leafset(i) == c and n.name != T.name[i]:
                        fails.append(f"ancestor name {T.name[i]} lost")
    if len(seen) != len(outs):
        fails.append("a pair of refinements is produced twice")
    return fails, len(outs)


def worker(item):
    if item["kind"] == "e2e":
        r = SR.generic_worker(item)
        r["section"] = item["section"]
        return r
    out = dict(paths=1, obligations=0, discharged=0, violations=[], solver_queries=0, solver_s=0.0, item=item, section=item["section"])
    if item["kind"] == "enum":
        fails, n = enum_fails(H.totuple(item["t"]), item["seed"])
        out["obligations"] = 6
        out["nontrivial"] = n > 1
        if item.get("sample"):
            out["sample"] = {"tree": item["t"], "refinements": n, "decided by": "z3: every output a model, spec AND NOT(outputs) unsat"}
    else:
        fails, n = input_fails(item["desc"])
        out["obligations"] = 8
        out["nontrivial"] = n > 1
    out["discharged"] = max(0, out["obligations"] - len(set(fails)))
    if fails:
        out["violations"].append({"kind": item["kind"], "text": f"{sorted(set(fails))[:3]} on {item.get('t') or item.get('desc')}",
                                  "signature": {"kind": item["kind"], "t": item.get("t"), "desc": item.get("desc")},
                                  "data": {"item": item}, "confirmed": True})
    return out


def replay(data):
    item = data.get("item")
    if item is None:
        return SR.replay(data)
    fails, _ = enum_fails(H.totuple(item["t"]), item["seed"]) if item["kind"] == "enum" else input_fails(item["desc"])
    for t in sorted(set(fails))[:5]:
        print("  reproduced:", t)
    return bool(fails)


def main(argv=None):
    tier, seed = R.tier_and_seed(argv)
    rng = random.Random(seed)
    q = tier == "quick"
    rep = R.Report(PROP, tier, seed)
    items = []
    maxl = 5 if q else 6
    for n in range(1, maxl + 1):
        for i, t in enumerate(multifurcating_shapes([f"L{j}" for j in range(n)])):
            items.append({"kind": "enum", "t": t, "seed": seed + i, "section": 0, "sample": (n == 4 and i == 5)})
    if q:
        items.append({"kind": "enum", "t": tuple(f"L{j}" for j in range(6)), "seed": seed, "section": 0})
    ninp, n1, n2 = (20, 14, 6) if q else (150, 90, 60)
    for _ in range(ninp):
        d = SR.random_poly_input(rng, rng.randint(3, 5), rng.randint(3, 4), 2, False, True, rng.random() < 0.5, max_arity=rng.choice([3, 4]))
        items.append({"kind": "input", "desc": d, "section": 1})
    FL = {"opt", "valid", "empty"}
    for _ in range(n1):
        algo = rng.choice(["superdtl", "ext_spfs"])
        d = SR.random_poly_input(rng, rng.randint(3, 4), rng.randint(2, 3), rng.randint(2, 3), D.ORDERED[algo], True, False)
        items.append({"kind": "e2e", "prop": PROP, "desc": d, "runs": SR.runs_for([algo], ["any"], FL, "full" if rng.random() < 0.4 else "dhs", inf_too=False),
                      "max_paths": 8000 if q else 40000, "budget_s": 200.0 if q else 900.0, "section": 2})
    for _ in range(n2):
        algo = rng.choice(["superdtl", "superdtl", "ext_spfs"])
        both = rng.random() < 0.6
        d = SR.random_poly_input(rng, rng.randint(3, 4), rng.randint(3, 4), 2 if algo == "ext_spfs" else rng.randint(2, 3), D.ORDERED[algo],
                                 both or rng.random() < 0.5, True, max_arity=3 if both else 4)
        items.append({"kind": "e2e", "prop": PROP, "desc": d, "runs": SR.runs_for([algo], ["any", "all"] if not q else ["any"], FL, "dhs", inf_too=True),
                      "max_paths": 8000 if q else 40000, "budget_s": 200.0 if q else 900.0, "section": 3})
    order = sorted(range(len(items)), key=lambda i: -(items[i]["section"] * 100 + len(str(items[i].get("desc", items[i].get("t"))))))
    res, sk = R.run_sharded(worker, [items[i] for i in order], 130 if q else 3000)
    names = ["refinement enumerator (binarize) vs SAT clade specification", "ReconciliationInput.binarize",
             "end to end: one polytomy in the object tree", "end to end: polytomy in the species tree / in both trees / 4-way"]
    for si, nm in enumerate(names):
        mine = [r for r in res if r.get("section") == si]
        rep.add_results(nm, mine, sum(1 for it in items if it["section"] == si) - len(mine), exhaustive=(si == 0))
    import superrec2.utils.trees as m9, superrec2.model.reconciliation as m4, superrec2.compute.super_reconciliation as m5
    import superrec2.compute.unordered_super_reconciliation as m6
    rep.functions = R.safe_digest(lambda: R.source_digest(m9.binarize, m9.arrange_leaves, m9.graft, m9.is_binary, m4.ReconciliationInput.binarize,
                                    m4.ReconciliationInput.label_internal, m5._spfs, m6._uspfs))
    rep.bounds = {"enumerator": f"every plane tree shape with arbitrary arities and 1-{maxl} leaves" + (" + the 6-leaf star" if q else "") +
                                "; ancestors named with probability 0.6, colour features with probability 0.35 (seeded)",
                  "inputs": f"{ninp} seeded inputs with polytomies (3-5 object leaves, 3-4 species leaves, arity up to 4)",
                  "end to end": f"{n1} + {n2} seeded inputs, 3-4 + 2-4 leaves, at most two polytomies; costs symbolic (all five, or dup/hgt/sloss with spe=0, floss=1), coherent region"}
    rep.assumptions = ["SAT clade specification engine/oracles/clades.py (laminar family of size |L|-1)", "z3 Boolean/pseudo-Boolean solving and LIA",
                       "end-to-end oracle forms = union over refinement pairs generated from SAT models"]
    rep.stubs = H.STUBS
    rep.outside = ["trees with more leaves than the bound", "more than two polytomies end to end", "base solvers on multifurcating inputs"]
    return rep.finish(
        explanation="The refinement enumerator is decided against a declarative SAT specification: z3 confirms that every produced tree is a model, and that "
                    "the specification conjoined with the negation of all produced trees is unsatisfiable (nothing missing), for every tree shape in the bound. "
                    "End to end, the extended solvers run on symbolic costs and z3 proves on every path that the returned optimum is no dearer than any "
                    "solution on any refinement pair.",
        rule="one evaluation = one tree shape (enumerator), one input (binarize) or one (input, algorithm) exploration; non-trivial = more than one refinement "
             "/ exploration forked on a cost comparison")


if __name__ == "__main__":
    sys.exit(main())
