"""C20 - triple decomposition, supertree construction and the disjoint-set structure are exact.

Trees/triple sets are structural (enumerated); the *sets* of trees are decided by z3 on the
declarative clade specification (laminar families + 'some clade contains a,b but not c' per
triple): every tree returned by all_trees_from_triples is a model, none is repeated, and
spec AND NOT(outputs) is unsat; tree_from_triples / supertree return None iff the specification is
unsat, and a returned tree displays every triple.  The disjoint-set structure has no numeric
dimension: union histories and an inductive single-operation step from every forest state are
enumerated exhaustively (stated as enumeration).
"""
import itertools
import random
import sys

from ete3 import Tree

from engine import runner as R
from engine.oracles import clades as CL
from engine.oracles.trees import OTree, labelled_shapes, nwk

from superrec2.utils.disjoint_set import DisjointSet
from superrec2.utils.trees import (
    all_supertrees,
    all_trees_from_triples,
    supertree,
    tree_from_triples,
    tree_to_triples,
)

PROP = "C20"


def ete_clades(t):
    return set(frozenset(l.name for l in n.iter_leaves()) for n in t.traverse() if not n.is_leaf())


def displays(t, triple):
    """Does ete3 tree t (any arity) display ab|c ?"""
    a, b, c = triple
    ab = t.get_common_ancestor(t & a, t & b)
    abc = t.get_common_ancestor(t & a, t & b, t & c)
    return ab is not abc and abc in ab.iter_ancestors()


def all_triples(leaves):
    out = []
    for trio in itertools.combinations(sorted(leaves), 3):
        for c in trio:
            a, b = [x for x in trio if x != c]
            out.append((a, b, c))
    return out


def triple_fails(leaves, triples):
    fails, nq = [], 0
    spec = CL.CladeSpec(leaves, triples=triples)
    sat = spec.satisfiable()
    nq += 1
    one = tree_from_triples(list(leaves), list(triples))
    if (one is not None) != sat:
        fails.append(f"tree_from_triples returns {'a tree' if one is not None else 'None'} although a displaying binary tree {'exists' if sat else 'does not exist'}")
    elif one is not None:
        if sorted(l.name for l in one.iter_leaves()) != sorted(leaves):
            fails.append("tree_from_triples returns a tree with different leaves")
        else:
            for tr in triples:
                if not displays(one, tr):
                    fails.append(f"tree_from_triples returns a tree that does not display {tr}")
                    break
    outs = all_trees_from_triples(list(leaves), list(triples))
    cs = []
    for o in outs:
        if sorted(l.name for l in o.iter_leaves()) != sorted(leaves) or any(len(n.children) not in (0, 2) for n in o.traverse()):
            fails.append("all_trees_from_triples returns a non-binary tree or different leaves")
            continue
        c = ete_clades(o)
        cs.append(frozenset(c))
        nq += 1
        if not spec.is_model(c):
            fails.append(f"all_trees_from_triples returns a tree that does not display every triple: clades {sorted(map(sorted, c))}")
    if len(set(cs)) != len(cs):
        fails.append("all_trees_from_triples returns a tree twice")
    nq += 1
    ok, missing = spec.complete(cs)
    if not ok:
        fails.append(f"all_trees_from_triples misses the tree with clades {sorted(map(sorted, missing))}")
    return fails, nq


ODD_LABELS = {"a": "dnaA:1", "b": "E. coli (K12)", "c": "x;y", "d": "p,q", "e": "kind=rRNA [16S]", "f": "tab\there"}


def build_ete(shape, rename=None):
    """ete3 tree built node by node (labels never pass through a Newick string)."""
    def rec(x, node):
        if isinstance(x, str):
            node.name = (rename or {}).get(x, x)
            return
        for c in x:
            rec(c, node.add_child())
    root = Tree()
    rec(shape, root)
    return root


def relabel(shape, rename):
    return rename.get(shape, shape) if isinstance(shape, str) else tuple(relabel(c, rename) for c in shape)


def roundtrip_fails(shape, odd=False):
    if odd:
        # leaf labels with characters that are special in Newick: legal when trees are built programmatically
        t = build_ete(shape, ODD_LABELS)
        shape = relabel(shape, ODD_LABELS)
    else:
        t = Tree(nwk(shape) + ";", format=1)
    before = ete_clades(t)
    leaves, triples = tree_to_triples(t)
    fails = []
    if ete_clades(t) != before:
        fails.append("tree_to_triples modified its argument")
    if sorted(leaves) != sorted(CL._leaves(shape)):
        fails.append(f"tree_to_triples reports leaves {sorted(leaves)}, the tree has {sorted(CL._leaves(shape))}")
        return fails
    back = tree_from_triples(leaves, triples)
    if back is None:
        return ["tree_from_triples(tree_to_triples(t)) is None"]
    if ete_clades(back) != CL.clades_of_tuple(shape):
        fails.append(f"rebuilt clades {sorted(map(sorted, ete_clades(back)))} differ from the original's")
    spec = CL.CladeSpec(leaves, triples=triples)
    alls = all_trees_from_triples(leaves, triples)
    if len(alls) != 1 or ete_clades(alls[0]) != CL.clades_of_tuple(shape):
        fails.append(f"all_trees_from_triples(tree_to_triples(t)) returns {len(alls)} tree(s), expected exactly t")
    ok, missing = spec.complete([CL.clades_of_tuple(shape)])
    if not ok:
        fails.append("the triples of t are displayed by another binary tree as well (decomposition not characteristic)")
    return fails


def restrict(shape, keep):
    if isinstance(shape, str):
        return shape if shape in keep else None
    kids = [k for k in (restrict(c, keep) for c in shape) if k is not None]
    if not kids:
        return None
    if len(kids) == 1:
        return kids[0]
    return tuple(kids)


def supertree_fails(shapes):
    trees = [Tree(nwk(s) + ";", format=1) for s in shapes]
    leaves = sorted(set(l for s in shapes for l in CL._leaves(s)))
    triples = []
    for s in shapes:
        O = OTree(s, "n")
        for a, b, c in all_triples(CL._leaves(s)):
            ia, ib, ic = O.by_name[a], O.by_name[b], O.by_name[c]
            if O.lca(ia, ib) != O.lca(ia, ib, ic):
                triples.append((a, b, c))
    spec = CL.CladeSpec(leaves, triples=triples)
    sat = spec.satisfiable()
    fails = []
    st = supertree(trees)
    if (st is not None) != sat:
        fails.append(f"supertree returns {'a tree' if st is not None else 'None'} although a common binary supertree {'exists' if sat else 'does not exist'}")
    elif st is not None:
        if sorted(l.name for l in st.iter_leaves()) != leaves:
            fails.append(f"supertree has leaves {sorted(l.name for l in st.iter_leaves())}, the input trees have {leaves}")
        for tr in triples:
            if not displays(st, tr):
                fails.append(f"supertree does not display {tr} of an input tree")
                break
    alls = all_supertrees(trees)
    cs = [frozenset(ete_clades(o)) for o in alls]
    # the routines accept any iterable of trees: a one-shot iterator must give the same answers as a list
    st_it = supertree(iter([Tree(nwk(s) + ";", format=1) for s in shapes]))
    if (st_it is None) != (st is None):
        fails.append(f"supertree(iterator) returns {'a tree' if st_it is not None else 'None'} where supertree(list) returns {'a tree' if st is not None else 'None'}")
    all_it = all_supertrees(t_ for t_ in [Tree(nwk(s) + ";", format=1) for s in shapes])
    if sorted(map(sorted, (map(sorted, c) for c in [frozenset(ete_clades(o)) for o in all_it]))) != sorted(map(sorted, (map(sorted, c) for c in cs))):
        fails.append(f"all_supertrees(generator) returns {len(all_it)} tree(s), all_supertrees(list) returns {len(alls)}")
    for o in alls:
        if sorted(l.name for l in o.iter_leaves()) != leaves:
            fails.append(f"all_supertrees returns a tree with leaves {sorted(l.name for l in o.iter_leaves())}, the input trees have {leaves}")
            break
    for c in cs:
        if not spec.is_model(c):
            fails.append("all_supertrees returns a tree that does not display an input tree")
            break
    if len(set(cs)) != len(cs):
        fails.append("all_supertrees returns a tree twice")
    ok, missing = spec.complete(cs)
    if not ok:
        fails.append(f"all_supertrees misses the supertree with clades {sorted(map(sorted, missing))}")
    return fails


# ----------------------------------------------------------------------------- disjoint sets (enumeration)
def partition_of(n, history):
    blocks = [{i} for i in range(n)]
    for a, b in history:
        A = next(x for x in blocks if a in x)
        B = next(x for x in blocks if b in x)
        if A is not B:
            blocks.remove(B)
            A |= B
    return sorted(sorted(x) for x in blocks)


def ds_state_fails(ds, n, want):
    fails = []
    if sorted(sorted(g) for g in ds.to_list()) != want:
        fails.append(f"to_list {ds.to_list()} != {want}")
    if len(ds) != len(want):
        fails.append(f"len {len(ds)} != {len(want)}")
    for i in range(n):
        for j in range(n):
            same = any(i in b and j in b for b in want)
            if (ds.find(i) == ds.find(j)) != same:
                fails.append(f"find({i}) == find({j}) is {ds.find(i) == ds.find(j)}, expected {same}")
                return fails
    return fails


def coarsenings(blocks):
    """All ways to merge blocks into exactly two groups (as sorted lists of sorted lists)."""
    g = len(blocks)
    out = set()
    for mask in range(1, 1 << (g - 1)):     # block 0 always on side 0, side 1 non-empty
        s0 = sorted(x for i, b in enumerate(blocks) if not mask >> (i - 1) & 1 or i == 0 for x in b) if False else None
        side0, side1 = [], []
        for i, b in enumerate(blocks):
            (side1 if (i > 0 and mask >> (i - 1) & 1) else side0).extend(b)
        out.add((tuple(sorted(side0)), tuple(sorted(side1))))
    return out


def history_fails(n, history):
    ds = DisjointSet(n)
    fails = []
    prefix = []
    for a, b in history:
        before = partition_of(n, prefix)
        merged = not any(a in x and b in x for x in before)
        r = ds.unite(a, b)
        prefix.append((a, b))
        if r != merged:
            fails.append(f"unite({a},{b}) returned {r}, expected {merged}")
    want = partition_of(n, history)
    fails += ds_state_fails(ds, n, want)
    got = [tuple(sorted(tuple(sorted(g)) for g in p.to_list())) for p in ds.binary()]
    exp = coarsenings(want) if len(want) >= 2 else set()
    if len(set(got)) != len(got):
        fails.append("binary() repeats a coarsening")
    if set(got) != {tuple(sorted(x)) for x in exp}:
        fails.append(f"binary() yields {len(set(got))} coarsenings, expected {len(exp)}")
    if sorted(sorted(g) for g in ds.to_list()) != want:
        fails.append("binary() modified the structure")
    return fails


def forests(n):
    """Every parent array that is a forest (roots are self-parents)."""
    for par in itertools.product(range(n), repeat=n):
        ok = True
        for i in range(n):
            seen, j = set(), i
            while par[j] != j:
                if j in seen:
                    ok = False
                    break
                seen.add(j)
                j = par[j]
            if not ok:
                break
        if ok:
            yield list(par)


def step_fails(n, par, ranks):
    """From an arbitrary forest state, one unite/find behaves as specified (inductive step)."""
    def root(i):
        while par[i] != i:
            i = par[i]
        return i
    blocks = {}
    for i in range(n):
        blocks.setdefault(root(i), []).append(i)
    want0 = sorted(sorted(b) for b in blocks.values())
    fails = []
    for a in range(n):
        for b in range(n):
            ds = DisjointSet(n)
            ds.parent, ds.rank, ds.groups = list(par), list(ranks), len(want0)
            r = ds.unite(a, b)
            same = root(a) == root(b)
            if r != (not same):
                fails.append(f"unite({a},{b}) from parent={par} returned {r}")
            want = partition_of(n, [(x[0], y) for x in want0 for y in x[1:]] + [(a, b)])
            f = ds_state_fails(ds, n, want)
            if f:
                fails.append(f"after unite({a},{b}) from parent={par} rank={ranks}: {f[0]}")
            if fails:
                return fails
    return fails


def worker(item):
    out = dict(paths=1, obligations=0, discharged=0, violations=[], solver_queries=0, solver_s=0.0, item=item, section=item["section"], nontrivial=True)
    k = item["kind"]
    if k == "triples":
        leaves = item["leaves"]
        allt = all_triples(leaves)
        for code in range(item["lo"], item["hi"]):
            trs = [allt[i] for i in range(len(allt)) if code >> i & 1]
            fails, nq = triple_fails(leaves, trs)
            out["obligations"] += 5
            out["solver_queries"] += nq
            if fails:
                out["violations"].append({"kind": "triples", "text": f"{fails[:2]} for leaves {leaves}, triples {trs}",
                                          "signature": {"kind": "triples", "leaves": leaves, "triples": trs},
                                          "data": {"what": "triples", "leaves": leaves, "triples": trs}, "confirmed": True})
                if len(out["violations"]) > 2:
                    break
            else:
                out["discharged"] += 5
        if item.get("sample"):
            out["sample"] = {"leaves": leaves, "triple subsets": f"codes {item['lo']}..{item['hi'] - 1} over the {len(allt)} triples", "decided by": "z3 clade specification"}
    elif k == "tripleset":
        fails, nq = triple_fails(item["leaves"], [tuple(t) for t in item["triples"]])
        out["obligations"], out["solver_queries"] = 5, nq
        out["discharged"] = 0 if fails else 5
        if fails:
            out["violations"].append({"kind": "triples", "text": f"{fails[:2]} for leaves {item['leaves']}, triples {item['triples']}",
                                      "signature": {"kind": "triples", "leaves": item["leaves"], "triples": item["triples"]},
                                      "data": {"what": "triples", "leaves": item["leaves"], "triples": item["triples"]}, "confirmed": True})
    elif k == "roundtrip":
        fails = roundtrip_fails(R_totuple(item["shape"])) + ([] if item.get("plain") else [f"with Newick-special characters in the labels: {f}" for f in roundtrip_fails(R_totuple(item["shape"]), odd=True)])
        out["obligations"] = 6
        out["discharged"] = 0 if fails else 6
        if fails:
            out["violations"].append({"kind": "roundtrip", "text": f"{fails} for tree {item['shape']}", "signature": {"kind": "roundtrip", "shape": item["shape"]},
                                      "data": {"what": "roundtrip", "shape": item["shape"]}, "confirmed": True})
    elif k == "supertree":
        fails = supertree_fails([R_totuple(s) for s in item["shapes"]])
        out["obligations"] = 5
        out["discharged"] = 0 if fails else 5
        if fails:
            out["violations"].append({"kind": "supertree", "text": f"{fails[:2]} for trees {item['shapes']}", "signature": {"kind": "supertree", "shapes": item["shapes"]},
                                      "data": {"what": "supertree", "shapes": item["shapes"]}, "confirmed": True})
    elif k == "supertree-block":
        for shapes in item["cases"]:
            fails = supertree_fails([R_totuple(s_) for s_ in shapes])
            out["obligations"] += 5
            if fails:
                out["violations"].append({"kind": "supertree", "text": f"{fails[:2]} for trees {shapes}", "signature": {"kind": "supertree", "shapes": shapes},
                                          "data": {"what": "supertree", "shapes": shapes}, "confirmed": True})
                if len(out["violations"]) > 2:
                    break
            else:
                out["discharged"] += 5
    elif k == "bighistory":
        fails = history_fails(item["n"], [tuple(x) for x in item["history"]])
        out["obligations"] = 4
        out["discharged"] = 0 if fails else 4
        if fails:
            out["violations"].append({"kind": "disjoint-set", "text": f"{fails[:2]} after unions {item['history']} on {item['n']} elements",
                                      "signature": {"kind": "disjoint-set", "history": item["history"]},
                                      "data": {"what": "history", "n": item["n"], "history": item["history"]}, "confirmed": True})
    elif k == "histories":
        n, L = item["n"], item["len"]
        pairs = [(a, b) for a in range(n) for b in range(n)]
        hists = [[]] if L == 0 else ([tuple(first)] + list(rest) for first in item["firsts"] for rest in itertools.product(pairs, repeat=L - 1))
        for h in hists:
            fails = history_fails(n, h)
            out["obligations"] += 4
            if fails:
                out["violations"].append({"kind": "disjoint-set", "text": f"{fails[:2]} after unions {h} on {n} elements",
                                          "signature": {"kind": "disjoint-set", "history": h}, "data": {"what": "history", "n": n, "history": h}, "confirmed": True})
                return out
            out["discharged"] += 4
    elif k == "step":
        n = item["n"]
        for par in item["forests"]:
            for ranks in itertools.product((0, 1), repeat=n):
                fails = step_fails(n, par, list(ranks))
                out["obligations"] += 1
                if fails:
                    out["violations"].append({"kind": "disjoint-set-step", "text": f"{fails[:2]}", "signature": {"kind": "disjoint-set-step", "parent": par},
                                              "data": {"what": "step", "n": n, "parent": par, "ranks": list(ranks)}, "confirmed": True})
                    return out
                out["discharged"] += 1
    return out


def R_totuple(x):
    return tuple(R_totuple(y) for y in x) if isinstance(x, (list, tuple)) else x


def replay(data):
    w = data["what"]
    if w == "triples":
        fails, _ = triple_fails(data["leaves"], [tuple(t) for t in data["triples"]])
    elif w == "roundtrip":
        fails = roundtrip_fails(R_totuple(data["shape"])) + roundtrip_fails(R_totuple(data["shape"]), odd=True)
    elif w == "supertree":
        fails = supertree_fails([R_totuple(s) for s in data["shapes"]])
    elif w == "history":
        fails = history_fails(data["n"], [tuple(x) for x in data["history"]])
    else:
        fails = step_fails(data["n"], data["parent"], data["ranks"])
    for t in fails[:5]:
        print("  reproduced:", t)
    return bool(fails)


def main(argv=None):
    tier, seed = R.tier_and_seed(argv)
    rng = random.Random(seed)
    q = tier == "quick"
    rep = R.Report(PROP, tier, seed)
    items = []
    names5 = ["a", "b", "c", "d", "e", "f"]
    for n in range(1, 6):
        for sh in labelled_shapes(names5[:n]):
            items.append({"kind": "roundtrip", "shape": sh, "section": 0})
    if not q:
        for sh in rng.sample(list(labelled_shapes(names5[:6])), 300):
            items.append({"kind": "roundtrip", "shape": sh, "section": 0})
    items.append({"kind": "triples", "leaves": ["a", "b", "c"], "lo": 0, "hi": 8, "section": 1})
    step = 128
    for lo in range(0, 4096, step):
        items.append({"kind": "triples", "leaves": ["a", "b", "c", "d"], "lo": lo, "hi": lo + step, "section": 1, "sample": lo == 1024})
    for _ in range(120 if q else 2500):
        n = rng.randint(5, 6)
        leaves = names5[:n]
        allt = all_triples(leaves)
        if rng.random() < 0.6:   # mostly consistent: take triples of a random tree, then perturb
            sh = rng.choice(list(labelled_shapes(leaves))) if n == 5 else _rand_shape(rng, leaves)
            O = OTree(sh, "n")
            cons = [t for t in allt if O.lca(O.by_name[t[0]], O.by_name[t[1]]) != O.lca(O.by_name[t[0]], O.by_name[t[1]], O.by_name[t[2]])]
            trs = rng.sample(cons, rng.randint(1, len(cons)))
            if rng.random() < 0.3:
                trs.append(rng.choice(allt))
        else:
            trs = rng.sample(allt, rng.randint(1, 8))
        items.append({"kind": "tripleset", "leaves": leaves, "triples": sorted(set(trs)), "section": 2})
    for _ in range(80 if q else 1500):
        n = rng.randint(4, 6)
        leaves = names5[:n]
        sh = _rand_shape(rng, leaves)
        shapes = []
        for _k in range(rng.randint(2, 3)):
            keep = set(rng.sample(leaves, rng.randint(2, n)))     # two-leaf trees carry no triple but do carry leaves
            base = sh if rng.random() < 0.8 else _rand_shape(rng, leaves)   # sometimes incompatible
            r = restrict(base, keep)
            if not isinstance(r, str):
                shapes.append(r)
        if len(shapes) >= 2:
            items.append({"kind": "supertree", "shapes": shapes, "section": 3})
    # every pair of restrictions (>= 2 leaves each) of every binary tree on 4 leaves, and of two different trees
    l4 = names5[:4]
    subsets = [set(c) for k in (2, 3, 4) for c in itertools.combinations(l4, k)]
    sh4 = list(labelled_shapes(l4))
    for i, a in enumerate(sh4):
        for b in (a, sh4[(i + 4) % len(sh4)]):
            block = []
            for ka in subsets:
                for kb in subsets:
                    block.append([restrict(a, ka), restrict(b, kb)])
            items.append({"kind": "supertree-block", "cases": block, "section": 3})
    # larger structures (seeded): deep union forests on 9-14 elements (long merge chains: most elements end in 2-4 blocks), and the
    # triple round trip on 8-10 leaves
    for _ in range(150 if q else 2000):
        nb = rng.randint(9, 14)
        hist = []
        blocks = [[i] for i in range(nb)]
        while len(blocks) > rng.randint(2, 4):
            a, b = rng.sample(range(len(blocks)), 2)
            hist.append((rng.choice(blocks[a]), rng.choice(blocks[b])))
            blocks[a] += blocks[b]
            del blocks[b]
        items.append({"kind": "bighistory", "n": nb, "history": hist, "section": 6})
    for _ in range(8 if q else 200):
        items.append({"kind": "roundtrip", "shape": _rand_shape(rng, [chr(ord("a") + i) for i in range(rng.randint(8, 9 if q else 10))]), "section": 6, "plain": True})
    n = 5
    pairs = [(a, b) for a in range(n) for b in range(n)]
    items.append({"kind": "histories", "n": n, "len": 0, "firsts": [pairs[0]], "section": 4})
    for L in range(1, (3 if q else 4) + 1):
        for f in pairs:
            items.append({"kind": "histories", "n": n, "len": L, "firsts": [f], "section": 4})
    fl = list(forests(4 if q else 5))
    chunk = 40
    for i in range(0, len(fl), chunk):
        items.append({"kind": "step", "n": 4 if q else 5, "forests": fl[i:i + chunk], "section": 5})
    res, sk = R.run_sharded(worker, items, 130 if q else 3000)
    names = ["tree_to_triples / tree_from_triples round trip: every binary tree on <= 5 leaves", "every subset of the triples on 3 and 4 leaves (z3 clade spec)",
             "seeded triple sets on 5-6 leaves (z3 clade spec)", "supertree / all_supertrees of seeded restrictions (z3 clade spec)",
             f"DisjointSet: every union history of length <= {3 if q else 4} on 5 elements (enumeration)",
             f"DisjointSet: one operation from every forest state on {4 if q else 5} elements (enumeration, inductive step)",
             "larger structures (seeded): merge histories on 9-14 elements down to 2-4 blocks; triple round trip on 8-10 leaves"]
    for si, nm in enumerate(names):
        mine = [r for r in res if r.get("section") == si]
        rep.add_results(nm, mine, sum(1 for it in items if it["section"] == si) - len(mine), exhaustive=si in (0, 1, 4, 5))
    import superrec2.utils.trees as T, superrec2.utils.disjoint_set as DS
    rep.functions = R.safe_digest(lambda: R.source_digest(T.tree_to_triples, T.trees_to_triples, T.tree_from_triples, T.all_trees_from_triples, T.supertree, T.all_supertrees,
                                    DS.DisjointSet.find, DS.DisjointSet.unite, DS.DisjointSet.to_list, DS.DisjointSet.binary, DS.DisjointSet.__len__))
    rep.bounds = {"trees": "every binary tree on 1-5 labelled leaves" + ("" if q else " + 300 seeded on 6 leaves"),
                  "triple sets": "all 8 subsets on 3 leaves, all 4096 subsets of the 12 triples on 4 leaves; seeded subsets on 5-6 leaves",
                  "supertrees": "2-3 restrictions (>= 2 leaves each) of a seeded tree on 4-6 leaves (20% taken from a different tree: often incompatible); every pair of "
                                "restrictions to >= 2 leaves of each binary tree on 4 leaves and of two different such trees; the result must carry exactly the union of the leaves",
                  "disjoint sets": f"every history of length <= {3 if q else 4} of unite(a,b) on 5 elements (a = b included); every forest parent array on {4 if q else 5} elements x ranks in {{0,1}} x every unite"}
    rep.assumptions = ["tree shapes / triple sets are enumerated; z3 decides membership, distinctness and completeness of the returned SETS of trees, and existence",
                       "the disjoint-set sub-claim has no numeric or set-valued output to hand to a solver: it is decided by exhaustive enumeration (stated)"]
    rep.bounds["labels"] = "plain letters, and (round trip) labels containing : ; ( ) , [ ] = space and tab on trees built node by node"
    rep.bounds["iterables"] = "supertree / all_supertrees are called with a list, a one-shot iterator and a generator"
    rep.outside = ["more than 6 leaves", "leaf labels that are not distinct strings"]
    return rep.finish(
        explanation="Sets of trees returned by the triple/supertree routines are decided by z3 against a declarative clade specification (each output a model, "
                    "none repeated, specification AND NOT(outputs) unsat; None iff unsat). The union-find structure is enumerated exhaustively, including a "
                    "single-operation step from every forest state (which extends the history claim to any length).",
        rule="one evaluation = one tree, one block of triple subsets, one triple set, one tree collection, or one block of union histories / forest states")


def _rand_shape(rng, leaves):
    leaves = list(leaves)
    rng.shuffle(leaves)
    while len(leaves) > 1:
        i, j = sorted(rng.sample(range(len(leaves)), 2))
        a, b = leaves[i], leaves[j]
        leaves = [x for k, x in enumerate(leaves) if k not in (i, j)] + [(a, b)]
    return leaves[0]


if __name__ == "__main__":
    sys.exit(main())
