"""C09 - results do not depend on presentation and respond sanely to the costs.

Engine A, paired executions inside one path exploration (second run under the first's path
condition): the original input and a transformed one (children reordered at every node of both
trees / all nodes and families renamed / an outgroup species added / the same input again / all
costs multiplied by k / one cost raised by a symbolic delta >= 0) run on the same symbolic cost
vector; z3 proves the relation between the minima for every cost vector of the joint path and
the optimal sets ('all' policy) are compared modulo the transformation in a naming-independent
form (clades).  Fresh-process determinism is sampled on solver-produced cost vectors (stated).
"""
import json
import os
import random
import subprocess
import sys

import z3
from infinity import inf

from engine import harness as H
from engine import runner as R
from engine.forksym import Inconclusive, Lin
from checks import dp_common as D
from checks import sr_common as SR

PROP = "C09"
TRANSFORMS = ["reorder", "rename", "outgroup", "again", "scale", "mono"]


# ----------------------------------------------------------------------------- transformations
def reorder(t, rng):
    if isinstance(t, str):
        return t
    kids = [reorder(c, rng) for c in t]
    rng.shuffle(kids)
    if len(kids) == 2 and rng.random() < 0.5:
        kids.reverse()
    return tuple(kids)


def rename_tree(t, mp):
    if isinstance(t, str):
        return mp[t]
    return tuple(rename_tree(c, mp) for c in t)


def transform(desc, kind, rng):
    """-> (desc2, inverse leaf map, inverse species-leaf map, inverse family map)"""
    d = json.loads(json.dumps(desc))
    d["ot"], d["st"] = H.totuple(d["ot"]), H.totuple(d["st"])
    ident = lambda xs: {x: x for x in xs}
    ol, sl = sorted(d["leafmap"]), sorted(set(_leaves(d["st"])))
    fams = sorted(set(g for s in (d.get("leafsyn") or {}).values() for g in s))
    io, isp, ifam = ident(ol), ident(sl), ident(fams)
    if kind == "reorder":
        d["ot"], d["st"] = reorder(d["ot"], rng), reorder(d["st"], rng)
        d["oprefix"], d["sprefix"] = "o", "s"
    elif kind == "rename":
        # <species>_<id>-like object names, numeric suffixes in family names (exercises the natural sort)
        po = {l: f"X{rng.randrange(10)}_{i + 7}" for i, l in enumerate(rng.sample(ol, len(ol)))}
        ps = {l: f"Sp{i + 3}" for i, l in enumerate(rng.sample(sl, len(sl)))}
        # numeric suffixes (natural sort) and names that differ only by letter case (canonical order must still be total)
        pf = {f: n for f, n in zip(fams, rng.sample(["f2", "f10", "F10", "f9", "F9", "f100", "Fa", "fa", "f7"], len(fams)))}
        d["ot"], d["st"] = rename_tree(d["ot"], po), rename_tree(d["st"], ps)
        d["leafmap"] = {po[k]: ps[v] for k, v in d["leafmap"].items()}
        if d.get("leafsyn"):
            d["leafsyn"] = {po[k]: [pf[g] for g in v] for k, v in d["leafsyn"].items()}
        if d.get("rootsyn"):
            d["rootsyn"] = [pf[g] for g in d["rootsyn"]]
        d["oprefix"], d["sprefix"] = "anc", "SPEC"
        io, isp, ifam = {v: k for k, v in po.items()}, {v: k for k, v in ps.items()}, {v: k for k, v in pf.items()}
    elif kind == "outgroup":
        d["st"] = (d["st"], "OUT") if rng.random() < 0.5 else ("OUT", d["st"])
        isp = dict(isp, OUT="OUT")
    return d, io, isp, ifam


def _leaves(t):
    return [t] if isinstance(t, str) else [l for c in t for l in _leaves(c)]


def canon(out, io, isp, ifam, ordered):
    """Naming-independent form of a solution: {object clade: (species clade, synteny)}."""
    res = {}
    syn = getattr(out, "syntenies", None)
    for node, sp in out.object_species.items():
        oc = frozenset(io[l.name] for l in node.iter_leaves())
        sc = frozenset(isp[l.name] for l in sp.iter_leaves())
        if syn is None:
            s = None
        elif ordered:
            s = tuple(ifam[g] for g in syn[node])
        else:
            s = tuple(sorted(ifam[g] for g in syn[node]))
        res[oc] = (sc, s)
    return frozenset(res.items())


def uses_outgroup(c):
    return any("OUT" in sc for _, (sc, _s) in c)


def run_all(algo, inp):
    return D.run_algo(algo, inp, "all")


def cost_of(res):
    return res[0].cost() if res else None


def isinf(v):
    return not isinstance(v, (Lin, int)) and v == inf


# ----------------------------------------------------------------------------- concrete re-check
def concrete_failures(item, costs, delta=0):
    desc, algo, kind = item["desc"], item["algo"], item["kind"]
    rng = random.Random(item["tseed"])
    d2, io, isp, ifam = transform(desc, kind, rng)
    ordered = D.ORDERED.get(algo)
    c1 = H.Case(desc)
    costs2 = dict(costs)
    if kind == "scale":
        costs2 = {k: (v if v is inf else v * item["k"]) for k, v in costs.items()}
    if kind == "mono":
        costs2[item["raise"]] = costs[item["raise"]] + delta
    try:
        r1 = run_all(algo, c1.build(costs))
        r2 = run_all(algo, H.Case(d2).build(costs2))
    except Exception as e:
        return [f"exception {type(e).__name__}: {e}"]
    a, b = cost_of(r1), cost_of(r2)
    fails = []
    i1 = {x: x for x in io.values()}
    s1 = canon_set(r1, {k: k for k in sorted(desc["leafmap"])}, {k: k for k in _leaves(H.totuple(desc["st"]))}, {k: k for k in ifam.values()}, ordered)
    s2 = canon_set(r2, io, isp, ifam, ordered)
    if kind == "outgroup":
        s2 = {c for c in s2 if not uses_outgroup(c)}
    if kind == "mono":
        if a is not None and b is not None and not isinf(a) and (isinf(b) is False) and b < a:
            fails.append(f"raising {item['raise']} by {delta} lowers the minimum from {a} to {b}")
        return fails
    exp = a if kind != "scale" or a is None or isinf(a) else a * item["k"]
    if (a is None) != (b is None) or (a is not None and not (exp == b)):
        fails.append(f"minimum changes from {a} to {b} under '{kind}'")
    if s1 != s2:
        fails.append(f"optimal set changes under '{kind}': {len(s1)} vs {len(s2)} solutions, {len(s1 ^ s2)} differ")
    return fails


def canon_set(res, io, isp, ifam, ordered):
    return {canon(o, io, isp, ifam, ordered) for o in res}


def proc_outputs(pdesc, algo, cc):
    outs = []
    for hs in ("1", "4242", "7"):
        env = dict(os.environ, PYTHONHASHSEED=hs)
        p = subprocess.run([sys.executable, "-m", "checks.c09_proc"], input=json.dumps({"desc": pdesc, "algo": algo, "costs": cc}),
                           capture_output=True, text=True, env=env, timeout=300)
        outs.append(p.stdout if p.returncode == 0 else f"ERR {p.stderr[-300:]}")
    return outs


def replay(data):
    if data.get("proc"):
        outs = proc_outputs(data.get("pdesc") or data["item"]["desc"], data["item"]["algo"], data["costs"])
        bad = len(set(outs)) != 1 or outs[0].startswith("ERR")
        print("  fresh processes", "disagree" if bad else "agree")
        return bad
    cf = concrete_failures(data["item"], H.cost_unjson(data["costs"]), data.get("delta", 0))
    for t in cf:
        print("  reproduced:", t)
    return bool(cf)


# ----------------------------------------------------------------------------- symbolic worker
def worker(item):
    desc, algo, kind = item["desc"], item["algo"], item["kind"]
    rng = random.Random(item["tseed"])
    d2, io, isp, ifam = transform(desc, kind, rng)
    ordered = D.ORDERED.get(algo)
    sup = SR.is_super(algo)
    out = dict(paths=0, obligations=0, discharged=0, violations=[], sample=None, solver_queries=0, solver_s=0.0, forks=0, witnesses=[])
    fixed = H.cost_unjson(item["fixed"])
    id_o = {k: k for k in sorted(desc["leafmap"])}
    id_s = {k: k for k in _leaves(H.totuple(desc["st"]))}
    id_f = {k: k for k in ifam.values()}
    try:
        ctx, costs = H.cost_ctx(item["sym"], fixed=fixed, coherent=True, with_sloss=sup, max_paths=item["max_paths"], budget_s=item["budget_s"])
        costs2 = dict(costs)
        delta = None
        if kind == "scale":
            costs2 = {k: (v if v is inf else v * item["k"]) for k, v in costs.items()}
        if kind == "mono":
            # extra symbol delta >= 0; the raised vector must stay in the coherent region
            ctx2, _ = None, None
            names = item["sym"] + ["delta"]
            from engine.forksym import Ctx
            ctx = Ctx([(n, "Int", "nonneg") for n in names], max_paths=item["max_paths"], budget_s=item["budget_s"])
            costs = {n: (ctx.var(n) if n in item["sym"] else fixed.get(n, {"spe": 0, "dup": 1, "hgt": 1, "floss": 1, "sloss": 1}[n])) for n in H.COST_NAMES}
            delta = ctx.var("delta")
            costs2 = dict(costs)
            costs2[item["raise"]] = costs[item["raise"]] + delta
            for cs in (costs, costs2):
                d = cs["spe"] + (2 * cs["sloss"] if sup else 0) - cs["dup"] - 2 * cs["floss"]
                if isinstance(d, Lin):
                    ctx.solver.add(ctx.z(d) <= 0)
                elif d > 0:
                    raise Inconclusive("fixed costs outside coherent region")
        case1, case2 = H.Case(desc), H.Case(d2)
        inp1, inp2 = case1.build(costs), case2.build(costs2)
        for _ in ctx.paths():
            try:
                r1 = run_all(algo, inp1)
                r2 = run_all(algo, inp2)
            except Exception as e:
                out["obligations"] += 1
                cc = H.concrete_costs(costs, ctx.model_values())
                cf = concrete_failures(item, cc, 0)
                out["violations"].append({
                    "kind": kind, "text": f"{algo} under '{kind}': exception {type(e).__name__}: {e}; input {desc}; transformed {d2}; costs {H.cost_json(cc)}; concrete: {cf}",
                    "signature": {"kind": kind, "algo": algo, "desc": desc, "exception": type(e).__name__},
                    "data": {"item": item, "costs": H.cost_json(cc), "delta": 0}, "confirmed": bool(cf)})
                break
            a, b = cost_of(r1), cost_of(r2)
            fails, model = [], None
            out["obligations"] += 1
            if (a is None) != (b is None):
                fails.append(f"one run is empty, the other is not ({a} vs {b})")
            elif a is not None:
                if isinf(a) or isinf(b):
                    if kind != "mono" and isinf(a) != isinf(b):
                        fails.append(f"minimum {a} vs {b}")
                else:
                    z0 = ctx.const(0)
                    if kind == "mono":
                        claim = ctx.z((b + z0) - (a + z0)) >= 0
                    elif kind == "scale":
                        claim = ctx.z((b + z0) - item["k"] * (a + z0)) == 0
                    else:
                        claim = ctx.z((b + z0) - (a + z0)) == 0
                    model = ctx.prove(claim)
                    if model is not None:
                        fails.append(f"minimum relation fails: {a} vs {b}")
            if not fails:
                out["discharged"] += 1
            if kind != "mono":
                out["obligations"] += 1
                s1 = canon_set(r1, id_o, id_s, id_f, ordered)
                s2 = canon_set(r2, io, isp, ifam, ordered)
                if kind == "outgroup":
                    s2 = {c for c in s2 if not uses_outgroup(c)}
                if s1 == s2:
                    out["discharged"] += 1
                else:
                    fails.append(f"optimal sets differ: {len(s1)} vs {len(s2)}")
            if fails:
                mv = model if model is not None else ctx.model_values()
                cc = H.concrete_costs(costs, mv)
                dv = int(mv.get("delta", 0)) if kind == "mono" else 0
                cf = concrete_failures(item, cc, dv)
                out["violations"].append({
                    "kind": kind, "text": f"{algo} under '{kind}': {fails}; input {desc}; transformed {d2}; costs {H.cost_json(cc)} delta {dv}; concrete: {cf}",
                    "signature": {"kind": kind, "algo": algo, "desc": desc},
                    "data": {"item": item, "costs": H.cost_json(cc), "delta": dv}, "confirmed": bool(cf)})
                break
            if kind in ("again", "rename") and len(out["witnesses"]) < item.get("nwit", 0) and a is not None:
                out["witnesses"].append(H.cost_json(H.concrete_costs(costs, ctx.model_values())))
            if out["sample"] is None and ctx.npaths >= 2:
                out["sample"] = {"input": desc, "algo": algo, "transformation": kind, "transformed_input": d2,
                                 "path_condition": ctx.pc_text(6), "min_original": repr(a), "min_transformed": repr(b)}
        st = ctx.stats()
        out.update(paths=st["paths"], solver_queries=st["solver_queries"], solver_s=st["solver_s"], forks=st["forks"])
    except Inconclusive as e:
        out["status"] = "inconclusive"
        out["reason"] = str(e)
    # fresh-process determinism on solver witnesses (sampling, stated)
    pdesc = d2 if kind == "rename" else desc       # the renamed input carries the awkward names
    for cc in out["witnesses"]:
        out["obligations"] += 1
        outs = proc_outputs(pdesc, algo, cc)
        if len(set(outs)) == 1 and not outs[0].startswith("ERR"):
            out["discharged"] += 1
        else:
            out["violations"].append({"kind": "process-determinism", "text": f"{algo}: fresh processes (PYTHONHASHSEED 1 / 4242 / 7) disagree on {pdesc} costs {cc}",
                                      "signature": {"kind": "process-determinism", "algo": algo, "desc": pdesc},
                                      "data": {"item": item, "costs": cc, "proc": True, "pdesc": pdesc}, "confirmed": True})
    out["fresh_process_pairs"] = len(out.pop("witnesses"))
    out["nontrivial"] = out["forks"] > 0
    out["item"] = {"desc": desc, "algo": algo, "kind": kind}
    out["section"] = item["section"]
    return out


def main(argv=None):
    tier, seed = R.tier_and_seed(argv)
    rng = random.Random(seed)
    q = tier == "quick"
    rng2 = random.Random(seed * 7919 + 13)
    rng3 = random.Random(seed * 104729 + 7)
    rep = R.Report(PROP, tier, seed)
    items = []

    def add(d, algo, section, symmode, kinds=TRANSFORMS):
        sup = SR.is_super(algo)
        for kind in kinds:
            hinf = rng.random() < 0.15
            if symmode == "full":
                sym = [n for n in (SR.FULL5 if sup else ["spe", "dup", "hgt", "floss"]) if not (hinf and n == "hgt")]
                fixed = {"hgt": "inf"} if hinf else {}
            else:
                sym = [n for n in (SR.DHS if sup else ["dup", "hgt"]) if not (hinf and n == "hgt")]
                fixed = {"spe": 0, "floss": 1, **({"hgt": "inf"} if hinf else {})}
            it = {"desc": d, "algo": algo, "kind": kind, "tseed": rng.randrange(10 ** 9), "sym": sym, "fixed": fixed, "section": section,
                  "max_paths": 8000 if q else 40000, "budget_s": 150.0 if q else 900.0, "nwit": 1 if (q and rng.random() < 0.4) else (0 if q else 2)}
            if kind == "scale":
                it["k"] = rng.choice([2, 3, 7])
            if kind == "mono":
                it["raise"] = rng.choice(sym)
            items.append(it)
            if kind == "mono":
                # round 6 (seeded C09-I): every symbolic cost is raised in turn, not one drawn at random, and the fixed loss cost is not always 1 -
                # a pruning rule that compares accumulated losses with another unit cost only bites when a loss is dear.  A separate stream keeps
                # the inputs of the other items unchanged.
                for tgt in sym:
                    fl = rng2.choice([1, 2, 3])
                    if tgt == it["raise"] and (symmode == "full" or fl == 1):
                        continue
                    it2 = dict(it, tseed=rng2.randrange(10 ** 9), nwit=0)
                    it2["raise"] = tgt
                    if symmode != "full":
                        it2["fixed"] = dict(fixed, floss=fl)
                    if q and sup and rng3.random() < 0.6:
                        continue            # quick tier: the dearer paired runs of the super solvers keep 40 % of the extra items (budget)
                    items.append(it2)

    n_small, n_thl, n_mid = (20, 12, 6) if q else (150, 120, 80)
    n_sim = 30 if q else 300
    for _ in range(n_small):
        algo = rng.choice(["ext_spfs", "superdtl", "base_spfs", "base_uspfs", "thl"])
        ordered = D.ORDERED.get(algo, rng.random() < 0.5)
        add(SR.random_super_input(rng, rng.randint(2, 3), rng.randint(2, 3), rng.randint(1, 3), bool(ordered)), algo, 0, "full")
    for _ in range(n_thl):
        big = rng.random() < 0.6
        if big:
            add(D.random_plain_input(rng, rng.randint(6, 8 if q else 10), rng.randint(4, 6 if q else 8)), "thl", 1, "dhs")
        else:
            add(D.random_plain_input(rng, rng.randint(4, 5 if q else 6), rng.randint(3, 5)), "thl", 1, "full")
    for _ in range(n_mid):
        algo = rng.choice(["ext_spfs", "superdtl", "base_uspfs"])
        add(SR.random_super_input(rng, rng.randint(4, 5), rng.randint(3, 4), rng.randint(2, 4 if algo != "ext_spfs" else 3), D.ORDERED[algo]), algo, 2, "dhs")
    # inputs simulated forward from the event model (transfers, losses across gene-less species, gains below the root): three of the six
    # transformations each, chosen at random
    for d in SR.simulated_inputs(rng, n_sim, 6, 6, 0, False, min_leaves=4):
        add(d, "thl", 3, "dhs", rng.sample(TRANSFORMS, 3))
    for d in SR.simulated_inputs(rng, n_sim // 2, 5, 4, 3, False, min_leaves=4):
        add(d, "superdtl", 3, "dhs", rng.sample(TRANSFORMS[:4], 2))
    for d in SR.simulated_inputs(rng, n_sim // 3, 5, 4, 3, True, min_leaves=4):
        add(d, "ext_spfs", 3, "dhs", rng.sample(TRANSFORMS[:4], 2))
    names = ["2-3 leaves, five symbolic costs, all solvers", "thl 5-10 object leaves / 3-8 species", "super solvers 4-5 leaves, dup/hgt/sloss symbolic",
             "simulated inputs (thl, superdtl, ext_spfs), two or three transformations each"]
    order = sorted(range(len(items)), key=lambda i: -(items[i]["section"] == 2) * 1000 - len(str(items[i]["desc"]["ot"])))
    res, sk = R.run_sharded(worker, [items[i] for i in order], 170 if q else 3000)
    for si, nm in enumerate(names):
        mine = [r for r in res if r.get("section") == si]
        rep.add_results(nm, mine, sum(1 for it in items if it["section"] == si) - len(mine), exhaustive=False)
    rep.extra["fresh_process_pairs_compared"] = sum(r.get("fresh_process_pairs", 0) for r in res)
    import superrec2.compute.reconciliation as m1, superrec2.compute.super_reconciliation as m5, superrec2.compute.unordered_super_reconciliation as m6
    import superrec2.model.synteny as m7, superrec2.model.reconciliation as m4
    rep.functions = R.safe_digest(lambda: R.source_digest(m1.reconcile_thl, m5._spfs, m5._compute_spfs_entry, m5._make_prec_graph, m6._uspfs, m6._compute_uspfs_entry,
                                    m6._compute_gain_sets, m6._compute_lca_sets, m7.sort_synteny, m4.ReconciliationOutput.__hash__,
                                    m4.SuperReconciliationOutput.__hash__))
    rep.bounds = {"inputs": f"seeded: {n_small} inputs 2-3 leaves (five symbolic costs), {n_thl} plain inputs 5-10 object leaves / 3-8 species for thl, "
                            f"{n_mid} labelled inputs 4-5 leaves (dup, hgt, sloss symbolic); each under all six transformations; "
                            f"{n_sim} + {n_sim // 2} + {n_sim // 3} inputs simulated forward from the event model under two or three transformations",
                  "transformations": "children reordered at every node of both trees; every leaf, ancestor and family renamed (numeric suffixes); outgroup species "
                                     "added; same input again; all costs x k (k in 2,3,7); one symbolic cost + delta (delta >= 0 symbolic)",
                  "costs": "non-negative integers in the coherent region before and after the change; 15% of runs with hgt = infinity.inf"}
    rep.assumptions = ["hash-seed effects are not encodable: fresh-process determinism is SAMPLED (two interpreters, different PYTHONHASHSEED) on cost "
                       "vectors produced by the solver, one per behaviour class, capped",
                       "outgroup: the original optimal set is compared with the new optimal set restricted to solutions avoiding the new species (with zero "
                       "costs a placement at the new root ties, which no implementation can exclude)"]
    rep.stubs = H.STUBS
    rep.outside = ["inputs beyond the stated sizes", "cost vectors outside the coherent region"]
    return rep.finish(
        explanation="Paired symbolic executions: original and transformed input run on the same symbolic cost vector within one exploration; z3 proves "
                    "equality (or k-multiple, or monotonicity under a symbolic increment) of the minima for every cost vector of each joint path and the "
                    "'all' results are compared as sets of clade-indexed solutions.",
        rule="one evaluation = one (input, algorithm, transformation); non-trivial = exploration forked on a cost comparison")


if __name__ == "__main__":
    sys.exit(main())
