"""C04 - every returned solution is a valid, complete (super-)reconciliation.

Engine A: unit costs symbolic non-negative integers with NO coherence restriction (sloss = 0 is
reached by the exploration itself); all seven algorithms, both policies, binary inputs, plus
inputs with polytomies for the extended solvers.  On every feasible path every returned solution
is checked structurally against the C04 wording (all nodes mapped, leaves in place, no invalid
event, finite cost, leaf syntenies as given, ordered: child subsequence of parent and root holds
every family once; unordered: each family inside its gain subtree and never below a node lacking it).
"""
import random
import sys

from engine import runner as R
from checks import dp_common as D
from checks import sr_common as SR
from checks import sr_main

PROP = "C04"
FLAGS = {"valid"}
replay = SR.replay


def main(argv=None):
    tier, seed = R.tier_and_seed(argv)
    rng = random.Random(seed)
    q = tier == "quick"
    plain = list(D.plain_inputs(range(1, 4), range(1, 4))) + [D.random_plain_input(rng, 4, rng.randint(2, 4)) for _ in range(20 if q else 200)]
    un = [SR.random_super_input(rng, rng.randint(2, 4), rng.randint(1, 3), rng.randint(1, 3), False) for _ in range(60 if q else 500)]
    od = [SR.random_super_input(rng, rng.randint(2, 3), rng.randint(1, 3), rng.randint(1, 3), True, rootsyn_p=0.2, consistent_p=0.7) for _ in range(60 if q else 500)]
    od += [SR.random_super_input(rng, 4, rng.randint(2, 3), 3, True) for _ in range(8 if q else 100)]
    poly_u = [SR.random_poly_input(rng, rng.randint(3, 4), rng.randint(2, 4), rng.randint(2, 3), False, True, (not q) and rng.random() < 0.4) for _ in range(10 if q else 150)]
    poly_o = [SR.random_poly_input(rng, rng.randint(3, 4), rng.randint(2, 3), rng.randint(2, 3), True, True, (not q) and rng.random() < 0.3) for _ in range(8 if q else 100)]
    deep_u = [SR.random_super_input(rng, rng.randint(5, 6), rng.randint(2, 4), rng.randint(2, 3), False) for _ in range(10 if q else 300)]
    deep_o = [SR.random_super_input(rng, rng.randint(4, 5), rng.randint(2, 4), rng.randint(3, 4), True, rootsyn_p=0.1, consistent_p=0.9) for _ in range(8 if q else 200)]
    deep_p = [D.random_deep_input(rng, rng.randint(4, 5), rng.randint(4, 6)) for _ in range(30 if q else 600)]
    sim_u = SR.simulated_inputs(rng, 30 if q else 300, 6, 4, 3, False)
    sim_o = SR.simulated_inputs(rng, 20 if q else 200, 5, 4, 3, True)
    pol = ["any", "all"]
    sections = [
        ("simulated inputs: base_uspfs, superdtl", [(d, SR.runs_for(["base_uspfs", "superdtl"], pol, FLAGS, "dhs", coherent=False, inf_too=False)) for d in sim_u], False),
        ("simulated inputs: base_spfs, ext_spfs", [(d, SR.runs_for(["base_spfs", "ext_spfs"], ["any"], FLAGS, "dhs", coherent=False, inf_too=False)) for d in sim_o], False),
        ("deeper inputs: unordered 5-6 leaves (dup, hgt, sloss symbolic)", [(d, SR.runs_for(["base_uspfs", "superdtl"], ["any"] if q else pol, FLAGS, "dhs", coherent=False)) for d in deep_u], False),
        ("deeper inputs: ordered 4-5 leaves x 3-4 families (dup, hgt, sloss symbolic)", [(d, SR.runs_for(["base_spfs", "ext_spfs"], ["any"], FLAGS, "dhs", coherent=False)) for d in deep_o], False),
        ("deeper inputs: plain 4-6 leaves on deep species trees (dup, hgt symbolic)", [(d, SR.runs_for(["lca", "thl", "exh"], ["any"] if q else pol, FLAGS, "dhs", coherent=False)) for d in deep_p], False),
        ("plain: lca, thl, exh", [(d, SR.runs_for(["lca", "thl", "exh"], pol, FLAGS, "full", coherent=False)) for d in plain], False),
        ("unordered: base_uspfs, superdtl", [(d, SR.runs_for(["base_uspfs", "superdtl"], pol, FLAGS, "full", coherent=False)) for d in un], False),
        ("ordered: base_spfs, ext_spfs", [(d, SR.runs_for(["base_spfs", "ext_spfs"], pol, FLAGS, "full", coherent=False)) for d in od], False),
        ("polytomies: superdtl", [(d, SR.runs_for(["superdtl"], pol, FLAGS, "dhs", coherent=False)) for d in poly_u], False),
        ("polytomies: ext_spfs", [(d, SR.runs_for(["ext_spfs"], ["any"] if q else pol, FLAGS, "dhs", coherent=False)) for d in poly_o], False),
    ]
    return sr_main.run(
        PROP, tier, seed, sections, ["plain", "unordered", "ordered", "dp", "poly"],
        bounds={"inputs": "plain: every input with 1-3 object x 1-3 species leaves + seeded 4-leaf inputs; unordered: seeded 2-4 leaves, 1-3 species leaves, "
                          "1-3 families; ordered: seeded 2-4 leaves, 1-3 families (some with mutually inconsistent orders or a prescribed root); "
                          "deeper inputs (dup, hgt[, sloss] symbolic; spe = 0, floss = 1): unordered 5-6 leaves, ordered 4-5 leaves x 3-4 families, plain 4-6 leaves on "
                          "(caterpillar) species trees with 4-6 leaves; polytomies: seeded inputs with one 3-way polytomy in the object tree and sometimes in the species tree (3-4 leaves)",
                "costs": "all symbolic costs range over ALL non-negative integers, no coherence restriction; sloss = 0 faces are explored because the code "
                         "branches on them; second run hgt = infinity.inf; polytomy inputs: dup, hgt, sloss symbolic (spe = 0, floss = 1)",
                "algorithms": "lca, thl, exh, base_spfs, ext_spfs, base_uspfs, superdtl; policies any and all"},
        explanation="Bounded symbolic verification: each algorithm runs on affine symbolic costs and every feasible cost-dependent path is visited; "
                    "every solution returned on every path is checked against the structural definition of a valid, complete (super-)reconciliation "
                    "by independent oracles. The solver's role is path coverage over the whole cost space (which solutions are returned depends on it).",
        rule="one evaluation = one structural input explored for the listed algorithms and policies; non-trivial = exploration forked on a cost comparison",
        outside=["inputs beyond the stated sizes", "base solvers and plain solvers on multifurcating inputs (not promised)", "negative or non-integer costs"],
        budget=170 if q else 3000, max_paths=6000 if q else 30000, budget_s=200.0 if q else 900.0)


if __name__ == "__main__":
    sys.exit(main())
