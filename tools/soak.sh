#!/bin/bash
# tools/soak.sh <seed>... : every quick check on the UNCHANGED tree under several VERIF_SEED values (evidence goes to a scratch directory);
# anything but "exit=0" is a false alarm or a harness error of the machinery and must be repaired before it is committed.
cd "$(dirname "$0")/.."
EV=$(mktemp -d /tmp/soak_ev.XXXXXX)
trap 'rm -rf "$EV"' EXIT
for seed in "$@"; do
  for c in C01 C02 C03 C04 C05 C06 C07 C08 C09 C10 C12 C13 C14 C15 C16 C17 C18 C19 C20; do
    s=$(date +%s)
    out=$(VERIF_SEED=$seed VERIF_EVIDENCE_DIR="$EV" ./vcheck $c --tier quick 2>&1); rc=$?
    echo "seed=$seed $c exit=$rc wall=$(( $(date +%s)-s ))s :: $(echo "$out" | tail -1 | cut -c1-200)"
    [ $rc -ne 0 ] && echo "$out" | grep -A1 -E '^VIOLATION|HARNESS' | head -6 | cut -c1-500
  done
done
exit 0
