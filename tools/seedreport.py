#!/usr/bin/env python3
"""Regenerate seeded/README.md from seeded/*/meta.json."""
import glob
import json
import os

rows = []
for d in sorted(glob.glob("/verif/seeded/*/")):
    m = json.load(open(d + "meta.json"))
    rows.append((os.path.basename(d.rstrip("/")), m))
with open("/verif/seeded/README.md", "w") as f:
    f.write("# Seeded changes\n\nEach directory holds a change to UdeM-LBIT/superrec2 written by an independent sub-agent that saw only the text of one property "
            "(nothing from /verif): `patch.diff`, `demo.py` (exits 1 with the change, 0 without) and `meta.json`. Every change was confirmed in a scratch worktree "
            "(applies, test-suite still 55 passed, demo flips) before being kept. None is ever committed to /repo.\n\n"
            "| seed | property | status | caught by | what it changes | needs to manifest |\n|---|---|---|---|---|---|\n")
    for name, m in rows:
        f.write(f"| {name} | {m['property']} | {m['status']} | {', '.join(m['caught_by']) or '-'} | {(m.get('summary') or '').replace('|', '/')[:300]} | "
                f"{(m.get('needs_to_manifest') or '').replace('|', '/')[:200]} |\n")
    n = len(rows)
    c = sum(1 for _, m in rows if m["status"].startswith("caught"))
    f.write(f"\n{c} of {n} kept changes are caught by the quick tier of the check of their property (after strengthening where noted).\n")
print("seeded/README.md:", len(rows), "seeds")
