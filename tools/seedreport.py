#!/usr/bin/env python3
"""Regenerate seeded/README.md from seeded/*/meta.json."""
import glob
import json
import os

rows = []
for d in sorted(glob.glob("/verif/seeded/*/")):
    m = json.load(open(d + "meta.json"))
    rows.append((os.path.basename(d.rstrip("/")), m))
with open("/verif/seeded/README.md", "w") as f:
    f.write("# Seeded changes\n\nEach directory holds a change to UdeM-LBIT/superrec2 written by an independent sub-agent that saw only the text of one property "
            "(nothing from /verif): `patch.diff`, `demo.py` (exits 1 with the change, 0 without) and `meta.json`. Every change was confirmed in a scratch worktree "
            "(applies, test-suite still 55 passed, demo flips) before being kept. None is ever committed to /repo.\n\n"
            "| seed | property | status | caught by | what it changes | needs to manifest |\n|---|---|---|---|---|---|\n")
    for name, m in rows:
        f.write(f"| {name} | {m['property']} | {m['status']} | {', '.join(m['caught_by']) or '-'} | {(m.get('summary') or '').replace('|', '/')[:300]} | "
                f"{(m.get('needs_to_manifest') or '').replace('|', '/')[:200]} |\n")
    from collections import Counter
    cnt = Counter(m["status"] for _, m in rows)
    f.write(f"\n{len(rows)} kept changes: " + "; ".join(f"{v} {k}" for k, v in sorted(cnt.items())) + ".\n\n"
            "caught = the quick tier of the check of the change's own property (or of a listed check) reported it at the first run; "
            "caught-after-strengthening = missed at first, the check was then strengthened generically (what was added is in the entry's meta.json and "
            "in DESIGN.md 12.5) and its quick tier reports it now; caught-by-other-check = only the quick tier of a neighbouring property's check "
            "reports it; caught-by-thorough-tier = no quick tier reports it, the thorough tier of the listed check does.\n")
print("seeded/README.md:", len(rows), "seeds")
