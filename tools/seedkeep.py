#!/usr/bin/env python3
"""tools/seedkeep.py <PROP> <A|B> <status> [check ids that caught it ...] -- '<what I ran / notes>'
Copy a confirmed seeded change from /tmp/wt/<PROP>/OUT into /verif/seeded/<PROP>-<A|B>/ with a meta.json."""
import json
import os
import shutil
import sys

prop, letter, status = sys.argv[1], sys.argv[2], sys.argv[3]
rest = sys.argv[4:]
notes = ""
if "--" in rest:
    i = rest.index("--")
    notes = " ".join(rest[i + 1:])
    rest = rest[:i]
src = f"/tmp/wt/{prop}/OUT"
dst = f"/verif/seeded/{prop}-{letter}"
os.makedirs(dst, exist_ok=True)
shutil.copy(f"{src}/patch_{letter}.diff", f"{dst}/patch.diff")
shutil.copy(f"{src}/demo_{letter}.py", f"{dst}/demo.py")
agent_meta = {}
try:
    agent_meta = {}
    for mf in ("meta.json", "meta2.json", "meta3.json", "meta4.json", "meta5.json"):
        if os.path.exists(f"{src}/{mf}"):
            agent_meta = json.load(open(f"{src}/{mf}")).get(letter, {}) or agent_meta
except Exception as e:
    agent_meta = {"summary": f"(agent meta unreadable: {e})"}
meta = {
    "property": prop,
    "summary": agent_meta.get("summary"),
    "needs_to_manifest": agent_meta.get("needs_to_manifest"),
    "files": agent_meta.get("files"),
    "confirmed": "tools/seedtest.sh in a scratch worktree: patch applies, test-suite 55 passed / 2 baseline failures, demo exits 1 with the change and 0 without",
    "status": status,               # caught | caught-after-strengthening | missed | rejected
    "caught_by": rest,
    "what_i_ran": notes,
}
json.dump(meta, open(f"{dst}/meta.json", "w"), indent=1)
print("kept", dst, status, rest)
