#!/bin/bash
# tools/seedregress.sh [seed ids...] : for every kept seeded change, apply it in a scratch worktree and run the quick tier of the FIRST check
# listed in its meta.json (caught_by); prints one line per seed.  Nothing is applied to /repo.
cd "$(dirname "$0")/.."
ids=("$@"); [ ${#ids[@]} -eq 0 ] && ids=($(ls seeded | grep -v README))
for id in "${ids[@]}"; do
  meta="seeded/$id/meta.json"; [ -f "$meta" ] || continue
  status=$(python3 -c "import json;print(json.load(open('$meta'))['status'])")
  checks=$(python3 -c "import json;m=json.load(open('$meta'));print(' '.join(m['caught_by']) or m['property'])")
  tier=quick; case "$status" in caught-by-thorough-tier|pending|missed*) echo "$id status=$status (quick tier not expected to catch) skipped"; continue;; esac
  WT=$(mktemp -d /tmp/seedwt.XXXXXX)
  git -C /repo worktree add -q --detach "$WT" HEAD
  (cd "$WT" && git apply "$OLDPWD/seeded/$id/patch.diff") || { echo "$id PATCH DOES NOT APPLY"; git -C /repo worktree remove --force "$WT"; continue; }
  res=""
  for c in $checks; do
    out=$(VERIF_REPO_SRC="$WT/src" VERIF_EVIDENCE_DIR="$WT/.evidence" ./vcheck "$c" --tier quick 2>&1); rc=$?
    res="$res $c=$rc"
    [ $rc -eq 1 ] && break
  done
  echo "$id status=$status ::$res"
  git -C /repo worktree remove --force "$WT" >/dev/null 2>&1; rm -rf "$WT"
done
