#!/bin/bash
# tools/seedtest.sh <patch.diff> <demo.py> [check ids...]
# Try a seeded change in a scratch worktree of /repo (outside /repo and /verif): test-suite, demonstration, then the given quick checks.
set -u
PATCH=$(readlink -f "$1"); DEMO=$(readlink -f "$2"); shift 2
WT=$(mktemp -d /tmp/seedwt.XXXXXX)
git -C /repo worktree add -q --detach "$WT" HEAD
trap 'git -C /repo worktree remove --force "$WT" >/dev/null 2>&1; rm -rf "$WT"' EXIT
cd "$WT"
echo "== demo on the unchanged tree (expect 0)"; PYTHONPATH="$WT/src" /venv/bin/python "$DEMO" >/dev/null 2>&1; echo "demo_clean_exit=$?"
git apply "$PATCH" || { echo "PATCH DOES NOT APPLY"; exit 3; }
echo "== test-suite with the change (expect 55 passed, 2 failed)"
PYTHONPATH="$WT/src" /venv/bin/python -m pytest -q -p no:cacheprovider --timeout=900 2>&1 | tail -1
echo "== demo with the change (expect 1)"; PYTHONPATH="$WT/src" /venv/bin/python "$DEMO" 2>&1 | tail -3; echo "demo_patched_exit=${PIPESTATUS[0]}"
for c in "$@"; do
  out=$(VERIF_REPO_SRC="$WT/src" VERIF_EVIDENCE_DIR="$WT/.evidence" /verif/vcheck "$c" --tier quick 2>&1); rc=$?
  echo "== $c exit=$rc :: $(echo "$out" | grep -c '^VIOLATION') VIOLATION line(s) :: $(echo "$out" | grep -m1 -A1 '^VIOLATION' | tail -1 | cut -c1-260)"
done
