#!/bin/bash
# Run the thorough tier of the given checks one after the other (for `vp run`), reporting exit status and wall time.
cd "$(dirname "$0")/.."
for c in "$@"; do
  s=$(date +%s)
  nice -n 10 ./vcheck "$c" --tier thorough > "thorough_$c.log" 2>&1
  rc=$?
  echo "$c exit=$rc wall=$(( $(date +%s) - s ))s :: $(tail -1 thorough_$c.log | cut -c1-300)"
done
