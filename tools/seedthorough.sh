#!/bin/bash
# tools/seedthorough.sh <patch.diff> <check id> : thorough tier of one check against a seeded change, in a scratch worktree (removed afterwards)
PATCH=$(readlink -f "$1"); C=$2
WT=$(mktemp -d /tmp/seedwt.XXXXXX)
git -C /repo worktree add -q --detach "$WT" HEAD
trap 'git -C /repo worktree remove --force "$WT" >/dev/null 2>&1; rm -rf "$WT"' EXIT
(cd "$WT" && git apply "$PATCH") || exit 3
s=$(date +%s)
out=$(VERIF_REPO_SRC="$WT/src" VERIF_EVIDENCE_DIR="$WT/.evidence" "$(dirname "$0")/../vcheck" "$C" --tier thorough 2>&1); rc=$?
echo "== $C thorough exit=$rc wall=$(( $(date +%s)-s ))s :: $(echo "$out" | grep -c '^VIOLATION') VIOLATION line(s)"
echo "$out" | grep -A1 '^VIOLATION' | head -6 | cut -c1-400
echo "$out" | tail -1 | cut -c1-300
