#!/usr/bin/env python3
"""Regenerate MANIFEST.json from the table below (python3 tools/mkmanifest.py)."""
import json
import os

VERIF = os.path.dirname(os.path.dirname(os.path.abspath(__file__)))

A = "engine A (forksym): forking symbolic execution of the real Python functions on affine symbolic scalars, z3 LIA/LRA, work-list of path conditions"
TB_A = ("Trusted: CPython operator dispatch on engine.forksym.Lin, z3 linear arithmetic, the independent oracles in "
        "engine/oracles, the per-check obligations. Structural inputs (tree shapes, assignments, syntenies) are bounded and "
        "enumerated/sampled as stated in the evidence; the numeric dimension is unbounded and decided by the solver. "
        "Stubs: tqdm -> identity, stderr -> sink.")

CHECKS = {
    "C12": dict(
        technique="CrossHair (symbolic names) for label_internal; bounded symbolic execution (affine costs, z3 LIA) of the reconcile front end; file-level runs on solver witnesses",
        text="label_internal is confirmed by CrossHair over all paths for symbolic ancestor names. cli.reconcile.read_input + call_algorithm run with "
             "symbolic unit costs: on every feasible path of every algorithm and policy the results carry exactly the specified distinct names and z3 "
             "proves each solution's oracle recount equal to the printed 'Minimum cost' for all cost vectors. The JSON lines, parse-back, draw, the "
             "all-superset-of-any relation and exit status 1 without syntenies are exercised at file level with the solver's witness cost vectors "
             "(concrete: costs cannot cross argv/JSON symbolically), including a seven-digit cost vector, ordered inputs without any solution (nothing "
             "may be written) and multifurcating input files with partially named ancestors (names must survive the refinement).",
        design="5/C12", engine="crosshair",
        note="Trusted: CrossHair 0.0.110 + z3, engine.forksym, oracles; "
             "get_species_mapping is enumerated (CrossHair 'Not confirmed')."),
    "C19": dict(
        technique="z3 specification (integer position per vertex, Distinct, pos[u] < pos[v]) deciding membership, distinctness and completeness of toposort_all's output set",
        text="For every digraph in the bound (every digraph on <= 4 vertices with self-loops in the thorough tier, seeded larger ones) z3 decides that "
             "each ordering returned by toposort_all is a model of the declarative specification, that none is repeated, and that the specification "
             "conjoined with the negation of all outputs is unsatisfiable; emptiness and toposort's answer are compared with satisfiability. The "
             "precedence graph of the ordered solver is compared with the labelling oracle's root orders. Returned lists are edited and the call repeated; "
             "every graph also runs with identity-hashed vertex objects.",
        design="5/C19", engine="forksym",
        note="Trusted: z3 integer difference logic; the graph itself is enumerated (structural input), the output set is decided by the solver."),
    "C20": dict(
        technique="z3 SAT clade specification deciding the output sets of tree_from_triples / all_trees_from_triples / supertree; exhaustive enumeration for the disjoint-set structure",
        text="For every binary tree on <= 5 leaves, every subset of the triples on <= 4 leaves and seeded sets on 5-6 leaves, z3 decides on a declarative "
             "clade specification that all_trees_from_triples returns exactly the displaying binary trees (each a model, none repeated, none missing) "
             "and that tree_from_triples / supertree return a displaying tree on exactly the union of the leaves iff the specification is satisfiable "
             "(input trees down to two leaves; list, iterator and generator arguments; Newick-special characters in labels). The disjoint-set structure is "
             "enumerated exhaustively over union histories and over a single operation from every forest state, plus seeded merge histories on "
             "9-14 elements (stated as enumeration).",
        design="5/C20", engine="forksym",
        note="Trusted: z3 Boolean / pseudo-Boolean solving, engine/oracles/clades.py; trees and triple sets are enumerated, output sets decided by the solver."),
    "C13": dict(
        technique="bounded symbolic execution (z3 LRA, symbolic node sizes) of layout.compute + tikz.render; census compared with independent event/loss oracle on every path",
        text="Layout and renderer run on symbolic node sizes in both orientations; every feasible ordering of their comparisons (including the "
             "direction of every transfer arrow) is a path. On each path: one branch per object node in its species with the kind the evaluator "
             "and the oracle assign, one loss pseudo-gene per counted full loss in the species where it occurs, one TikZ node statement per "
             "branch with the matching style, one transfer arrow per transfer ending at the transferred child's anchor; z3 proves every size "
             "attached to the node it was measured for. One reconciliation object serves both orientations and half of the items are drawn after "
             "another valid reconciliation of the same input object.",
        design="5/C13", engine="forksym",
        note="Trusted: engine.forksym over z3 LRA; stub measurer bound to render.layout.measure_nodes; engine/oracles/recon.py for events and loss locations."),
    "C15": dict(
        technique="CrossHair (symbolic str) for tex.escape; bounded symbolic execution (symbolic node sizes) of the renderer with TikZ lexer + colour/label oracle; exhaustive enumeration for the wrapper",
        text="tex.escape is confirmed by CrossHair over all paths for every string up to the bound against a character-wise specification (with a "
             "reachability twin). The renderer runs on symbolic sizes; on every feasible path the text passes a TikZ lexer, every colour used is "
             "defined before the picture, node and loss-marker colours equal the nearest coloured ancestor-or-self, labels list the families in "
             "order and ancestral labels are omitted iff equal to the parent's; the same object is drawn again at label widths 6, 18 and 40 and "
             "every drawing's labels obey its own width and the greedy line count. balanced_wrap/format_synteny are enumerated exhaustively over the "
             "property's small word space (stated as enumeration: textwrap needs concrete strings).",
        design="5/C15", engine="crosshair",
        note="Trusted: CrossHair 0.0.110 + z3; TikZ acceptance approximated by a lexer; names restricted to letters, digits, underscore, backslash."),
    "C14": dict(
        technique="bounded symbolic execution over linear real arithmetic (z3 LRA) of layout.compute / tikz.render with symbolic node sizes and drawing parameters",
        text="Every node's width/height and the numeric drawing parameters are symbolic positive reals; every feasible ordering of the layout's "
             "min/max comparisons is explored and on each path one z3 query proves sibling-box disjointness and containment, pairwise trunk "
             "disjointness, existence of every referenced anchor, the x<->y mirror equality between the horizontal layout with (h,w) and the "
             "vertical one with (w,h), repeatability, and independence of how a box's overall height is split into height and depth, for all values on that "
             "path; the three layouts of an item are computed on ONE "
             "reconciliation object, half of the items after another reconciliation of the same input object was drawn.",
        design="5/C14", engine="forksym",
        note="Trusted: engine.forksym over z3 linear real arithmetic; floats modelled as exact reals (counterexamples replayed with exact rationals and floats); "
             "stub measurer bound to render.layout.measure_nodes; reconciliations come from the independent enumerator."),
    "C08": dict(
        technique="z3 SAT specification of binary refinements (laminar clade families) deciding completeness of binarize; bounded symbolic execution of the extended solvers against refinement-union oracle",
        text="For every tree shape with arbitrary arities up to the bound z3 decides, on a declarative clade specification, that every tree produced "
             "by binarize is a refinement, that none is repeated and that none is missing (spec AND NOT(outputs) unsat); names, colours and leaf data "
             "are preserved. End to end the extended solvers run on symbolic costs and z3 proves the optimum no dearer than any solution of any "
             "refinement pair generated from the SAT models (finite and infinite transfer cost; ancestors named o#/s# or O#/S#; no repeated names in a "
             "solution's trees); the same tree object is edited in place and refined again.",
        design="5/C08", engine="forksym"),
    "C09": dict(
        technique="paired bounded symbolic execution (affine costs, z3 LIA) of original vs. transformed input; clade-indexed set comparison; sampled fresh-process determinism",
        text="Original and transformed input (children reordered, everything renamed, outgroup added, run again, costs x k, one cost + symbolic "
             "delta - every symbolic unit cost is raised in turn, with the fixed loss cost drawn from 1..3) run on the same symbolic cost vector in one exploration; z3 proves equality / k-multiple / monotonicity of the minima for "
             "every cost vector of every joint path and the 'all' results are equal as naming-independent sets. Hash-seed determinism is sampled "
             "in fresh interpreters on solver-produced cost vectors (stated).",
        design="5/C09", engine="forksym"),
    "C07": dict(
        technique="symbolic execution of reconcile_lca / reconcile_thl(hgt=inf) + z3 LIA proof of minimality and uniqueness against all transfer-free reconciliations",
        text="For every structural input in the bound, reconcile_lca equals an independent LCA mapping and z3 proves, for ALL dup, floss >= 0 and "
             "0 <= spe <= dup, that it is no dearer than any transfer-free reconciliation of the oracle and strictly cheaper than every other one "
             "when floss > 0; reconcile_thl with an infinite transfer cost, explored on the same symbols, returns exactly that cost/mapping. "
             "Inputs with and without names on the ancestors of both trees.",
        design="5/C07", engine="forksym"),
    "C10": dict(
        technique="paired bounded symbolic execution (affine costs, z3 LIA): relation between two algorithms' minima proven per joint path",
        text="Two algorithms run on the same symbolic cost vector in one exploration; z3 proves ext <= base, unordered <= ordered, thl <= lca "
             "(= when transfers are forbidden) and the single-family equalities for every cost vector of every joint path. No oracle is needed, so "
             "inputs up to 10 object leaves / 8 species are used.",
        design="5/C10", engine="forksym"),
    "C04": dict(
        technique="bounded symbolic execution (affine costs without coherence restriction, z3 LIA) of all seven algorithms; structural validity oracle on every path",
        text="All seven algorithms, both policies, binary inputs and (extended solvers) inputs with polytomies run on symbolic non-negative integer "
             "costs with no coherence restriction; every cost-dependent path is visited (sloss = 0 faces included) and every solution returned on "
             "every path is checked against the structural definition of a valid complete (super-)reconciliation with finite cost; deeper inputs run with two or "
             "three symbolic costs.",
        design="5/C04", engine="forksym"),
    "C05": dict(
        technique="bounded symbolic execution (affine costs, z3 LIA): completeness of the 'all' result proven per path against the oracle's full solution set",
        text="On every feasible cost ordering of thl, exh, base/ext spfs, base_uspfs, superdtl z3 proves that every oracle solution missing from the "
             "'all' result is strictly dearer than the returned cost for all cost vectors of the path, that returned solutions are distinct, optimal "
             "and equally priced, that 'any' returns exactly one member of the 'all' result, and that the result is empty only if the oracle set is. Deeper ordered/unordered sections (three symbolic costs) and call-history "
             "sections (fresh interpreter; same input object with costs changed in place) are included.",
        design="5/C05", engine="forksym"),
    "C02": dict(
        technique="bounded symbolic execution (five affine costs, z3 LIA) of sreconcile_extended_spfs / base_spfs vs. independent enumerator of mappings x root orders x labellings",
        text="For every structural input in the bound and EVERY non-negative integer cost vector in the coherent region (sloss = 0 included), on every "
             "feasible path of the real ordered solvers (any, all; finite and infinite transfer cost; optional prescribed root order) z3 proves the "
             "returned solutions valid and no dearer than every oracle solution; emptiness is compared with the oracle's; base variant against the "
             "oracle restricted to the independently computed LCA mapping. Extra sections: seeded 4-5-leaf x 3-4-family inputs, a call history "
             "(earlier concrete calls in a fresh interpreter, then the symbolic exploration) and, in the thorough tier, one complete structural family (15^4 inputs).",
        design="5/C02", engine="forksym"),
    "C03": dict(
        technique="bounded symbolic execution (five affine costs, z3 LIA) of usreconcile_extended_uspfs / base_uspfs vs. independent enumerator of mappings x family-set labellings",
        text="For every structural input in the bound and EVERY non-negative integer cost vector in the coherent region, on every feasible path of "
             "SuperDTL and its base variant (any, all; finite and infinite transfer cost) z3 proves the returned solutions valid and no dearer than "
             "every (mapping, labelling) of the oracle, whose labellings range over every content between required and allowed. Extra sections: seeded 5-6-leaf inputs (three symbolic costs) "
             "and a call history (earlier concrete calls in a fresh interpreter, then the symbolic exploration).",
        design="5/C03", engine="forksym"),
    "C17": dict(
        technique="bounded symbolic execution (symbolic array elements, z3 LIA, ite model of min) of RangeMinQuery; py2smt bit-vector proof of _ilog2; exhaustive structural enumeration for ancestry queries",
        text="RangeMinQuery's real constructor and query run on unconstrained symbolic integers; for every range of every length in the bound z3 "
             "proves the result is the minimum of exactly that slice for ALL array contents. _ilog2 is translated from source to bit-vectors and "
             "proven. The ancestry queries have no numeric dimension: every plane tree of any arity, every node pair and triple up to the bound "
             "is enumerated on the real code against parent-chain definitions, under four node-naming schemes and three construction "
             "histories, plus a comb of depth 700 and a 40 000-node tree with sampled queries (stated as enumeration).",
        design="5/C17", engine="forksym"),
    "C18": dict(
        technique="AST-to-SMT translation (z3 bit-vectors, ite-merged branches, unwinding assertion) of subseq_segment_dist vs. declarative run count; symbolic-element round trips",
        text="subseq_segment_dist is translated from its current source into one bit-vector formula and z3 proves it equal to a declarative "
             "run-count specification for ALL (child, parent, edges) with N-bit masks (one unsat query per N, plus unwinding, termination and "
             "range side queries; translator validated against the real function on the repo's vectors and seeded inputs; cvc5 cross-check in "
             "the thorough tier). mask_from_subseq/subseq_from_mask run on symbolic pairwise-distinct elements for every mask (a returned list edited by "
             "the caller must not change the next equal call), with a concrete int/str/tuple companion (enumeration).",
        design="5/C18", engine="py2smt",
        note="Trusted: engine/py2smt.py (validated per run against the real function), z3 bit-vector theory, the declarative specification in checks/c18.py."),
    "C16": dict(
        technique="bounded symbolic execution (symbolic integer candidate values, z3 LIA) of Entry/Table + inductive single-update step",
        text="Candidate values are unconstrained symbolic integers; for every policy pair, tag pattern, batching and placement in the bound "
             "(standalone entries, cells of 1-3 dimensional tables) every feasible value ordering of the real update/combine code is explored "
             "and z3 proves value and tags equal to the specification; a single-update inductive step from an arbitrary invariant-satisfying "
             "pre-state extends the claim to histories of any length. Half of the multi-batch histories are 'watched' (every observer read after "
             "every batch; info/iteration/len must agree with infos); combine receivers include cells written with an untagged candidate; an aliasing section covers an entry built from another entry's "
             "value()/infos() and two kept proxies of one unwritten cell.",
        design="5/C16", engine="forksym"),
    "C06": dict(
        technique="bounded symbolic execution (affine costs, z3 LIA) of the cost evaluator vs. independent recount",
        text="For every valid mapping (and every ordered/unordered labelling in the bound) of an independent enumerator, the real node_event, reconciliation_cost, labeling_cost and cost are executed on symbolic unit costs and z3 proves the resulting affine form equal to the oracle recount for EVERY non-negative integer cost vector (plus the concrete infinite transfer cost).",
        design="5/C06", engine="forksym"),
    "C01": dict(
        technique="bounded symbolic execution (affine costs, z3 LIA) of reconcile_thl / reconcile_exhaustive vs. independent enumerator",
        text="For every structural input in the bound and EVERY non-negative integer cost vector in the coherent region, on every "
             "feasible path of the real thl / exhaustive solvers (any, all; finite and infinite transfer cost) z3 proves the returned "
             "reconciliation valid and no dearer than each valid reconciliation of an independent enumerator; generate_all is compared "
             "with the oracle set. Extra sections: deep (caterpillar) species trees, and a call history (the solver is first called "
             "concretely in a fresh interpreter, then explored symbolically; replay in a fresh interpreter), inputs simulated forward from the event model, a "
             "thl/exh cross-check beyond the oracle's reach, and a concrete companion with 13-16-digit integer costs (enumeration, stated). Counterexamples "
             "are replayed with plain ints before being reported.",
        design="5/C01", engine="forksym"),
}

NOT_APPLICABLE = {
    "C11": "serialisation round trip is string/structure plumbing through ete3's Newick regex parser and the json C accelerator: "
           "no numeric or branching dimension for a solver to generalise over, and CrossHair (the only installed engine with symbolic "
           "strings) cannot exhaust even 80 inputs of it (DESIGN.md 2.C, 5/C11)",
}

PENDING = "check not built yet in this session (planned in DESIGN.md section 5); not claimed until it runs green on the unchanged tree"


def main():
    props = [json.loads(l)["id"] for l in open(os.path.join(VERIF, "properties.jsonl"))]
    checks = []
    for pid in props:
        if pid not in CHECKS:
            continue
        c = CHECKS[pid]
        checks.append({
            "property_id": pid,
            "quick_cmd": f"./vcheck {pid} --tier quick",
            "thorough_cmd": f"./vcheck {pid} --tier thorough",
            "evidence_file": f"evidence/{pid}.json",
            "replay_cmd_template": "./vcheck replay {path}",
            "engine": c.get("engine", "forksym"),
            "level_claimed": {"category": "other", "text": c["text"], "design_ref": c["design"]},
            "level_note": c.get("note", TB_A),
            "technique": c["technique"],
        })
    na = []
    for pid in props:
        if pid in CHECKS:
            continue
        na.append({"property_id": pid, "reason": NOT_APPLICABLE.get(pid, PENDING)})
    man = {
        "version": 1,
        "setup_cmd": "./vsetup.sh",
        "hooks": {
            "guard": "SUPERREC2_VERIF",
            "enable": "no source hook is needed: every stub is a module attribute bound by the harness in its own process "
                      "(vcheck exports SUPERREC2_VERIF=1, nothing in /repo reads it)",
            "baseline_off_cmd": "cd /repo && /venv/bin/python -m pytest -ra -q -p no:cacheprovider --timeout=900 --continue-on-collection-errors",
            "source_commits": [],
            "add_only": True,
        },
        "engines": [
            {"name": "forksym", "path": "engine/forksym.py", "kind_free_text": A,
             "serves_properties": [p for p in props if CHECKS.get(p, {}).get("engine", "forksym") == "forksym" and p in CHECKS]},
            {"name": "py2smt", "path": "engine/py2smt.py",
             "kind_free_text": "engine B: AST -> z3 bit-vector translation with ITE merging, unwinding assertions, cross-checked by cvc5",
             "serves_properties": [p for p in props if CHECKS.get(p, {}).get("engine") == "py2smt"]},
            {"name": "crosshair", "path": "engine/xhair.py",
             "kind_free_text": "engine C: CrossHair 0.0.110 on generated PEP-316 harnesses (string contracts only)",
             "serves_properties": [p for p in props if CHECKS.get(p, {}).get("engine") == "crosshair"]},
        ],
        "checks": checks,
        "not_applicable": na,
        "notes": "All checks: exit 0 = held on everything explored, 1 = VIOLATION (replayed concretely first), 2 = harness error / nothing decided. "
                 "Genuine defects repaired in /repo are 'fix:' commits listed in known_findings.json (status fixed).",
    }
    with open(os.path.join(VERIF, "MANIFEST.json"), "w") as f:
        json.dump(man, f, indent=1)
    print("MANIFEST.json:", len(checks), "checks,", len(na), "not applicable")


if __name__ == "__main__":
    main()
