#!/bin/bash
# Idempotent offline setup: overlay venv on /venv (which holds superrec2 + ete3) with z3 + crosshair.
set -e
cd "$(dirname "$0")"
V=/verif/.venv
exec 9>/verif/.vsetup.lock
flock 9
if [ -x "$V/bin/python" ] && "$V/bin/python" -c "import z3, crosshair, superrec2, ete3" >/dev/null 2>&1; then
    exit 0
fi
rm -rf "$V"
/venv/bin/python -m venv "$V"
SP="$V/lib/python3.12/site-packages"
echo "import site; site.addsitedir('/venv/lib/python3.12/site-packages')" > "$SP/base.pth"
PIP_NO_INDEX=1 "$V/bin/pip" install -q --no-index --find-links /opt/veriftools/wheels crosshair-tool z3-solver >/dev/null
"$V/bin/python" -c "import z3, crosshair, superrec2, ete3; print('vsetup ok', z3.get_version_string())"
